"""Baton scheduler: N worker threads, exactly one runnable; scheduling points
hand the baton over according to a choice sequence.  Stateless DFS over the
choice tree enumerates all interleavings at scheduling-point granularity."""
import threading

WATCHDOG = 30.0


class ScheduleAbort(BaseException):
    pass


class Baton:
    def __init__(self, chooser):
        self.chooser = chooser          # f(enabled(list of idx), current idx or None) -> idx
        self.idents = {}
        self.events = []
        self.finished = []
        self.current = None
        self.aborted = False
        self.switches = 0               # baton hand-overs at non-start, non-finish points
        self.points = 0
        self.stuck = False

    # ---- called inside workers -------------------------------------------
    def point(self, kind=None):
        idx = self.idents.get(threading.get_ident())
        if idx is None or self.aborted:
            return
        if self.current != idx:
            return  # not under baton control (should not happen)
        self.points += 1
        enabled = [i for i, f in enumerate(self.finished) if not f]
        nxt = self.chooser(enabled, idx)
        if nxt != idx:
            self.switches += 1
            self._handoff(idx, nxt)

    def _handoff(self, me, nxt):
        self.events[me].clear()
        self.current = nxt
        self.events[nxt].set()
        if not self.events[me].wait(WATCHDOG):
            self.stuck = True
            self.aborted = True
            raise ScheduleAbort()
        if self.aborted:
            raise ScheduleAbort()

    # ---- driver ----------------------------------------------------------
    def run(self, funcs):
        n = len(funcs)
        self.events = [threading.Event() for _ in range(n)]
        self.finished = [False] * n
        results = [None] * n
        done = threading.Event()

        def worker(i):
            self.idents[threading.get_ident()] = i
            ready[i].set()
            if not self.events[i].wait(WATCHDOG) or self.aborted:
                results[i] = ('aborted',)
                self.finished[i] = True
                return
            try:
                results[i] = ('ok', funcs[i]())
            except ScheduleAbort:
                results[i] = ('aborted',)
            except BaseException as e:  # the payload's own exceptions are results
                results[i] = ('raised', e)
            self.finished[i] = True
            enabled = [j for j, f in enumerate(self.finished) if not f]
            if self.aborted:
                for j in enabled:
                    self.events[j].set()
                return
            if enabled:
                nxt = self.chooser(enabled, None)
                self.current = nxt
                self.events[nxt].set()
            else:
                done.set()

        ready = [threading.Event() for _ in range(n)]
        threads = [threading.Thread(target=worker, args=(i,), daemon=True) for i in range(n)]
        for t in threads:
            t.start()
        for r in ready:
            r.wait(WATCHDOG)
        first = self.chooser(list(range(n)), None)
        self.current = first
        self.events[first].set()
        if not done.wait(WATCHDOG * 2):
            self.stuck = True
            self.aborted = True
            for e in self.events:
                e.set()
        for t in threads:
            t.join(WATCHDOG)
        return results


class DFSChooser:
    """Replays a prefix of choice indices, then always takes option 0, recording
    (chosen index, number of options) for every decision with > 1 option."""

    def __init__(self, prefix=()):
        self.prefix = list(prefix)
        self.trace = []   # list of [chosen, noptions]

    def __call__(self, enabled, current):
        # put the current thread first so that "option 0" = keep running
        opts = list(enabled)
        if current is not None and current in opts:
            opts.remove(current)
            opts.insert(0, current)
        if len(opts) == 1:
            return opts[0]
        k = len(self.trace)
        c = self.prefix[k] if k < len(self.prefix) else 0
        if c >= len(opts):
            c = 0
        self.trace.append([c, len(opts)])
        return opts[c]

    def next_prefix(self):
        tr = self.trace
        i = len(tr) - 1
        while i >= 0:
            if tr[i][0] + 1 < tr[i][1]:
                return [t[0] for t in tr[:i]] + [tr[i][0] + 1]
            i -= 1
        return None


class RandomChooser:
    def __init__(self, rng, switch_prob=0.3, max_preempt=None):
        self.rng = rng
        self.p = switch_prob
        self.max_preempt = max_preempt
        self.preempts = 0
        self.trace = []

    def __call__(self, enabled, current):
        if current is None or current not in enabled:
            c = self.rng.choice(enabled)
        elif len(enabled) > 1 and self.rng.random() < self.p and (
                self.max_preempt is None or self.preempts < self.max_preempt):
            c = self.rng.choice([e for e in enabled if e != current])
            self.preempts += 1
        else:
            c = current
        self.trace.append(c)
        return c


class ReplayChooser:
    """Replays a recorded sequence of thread indices (falls back to first enabled)."""

    def __init__(self, seq):
        self.seq = list(seq)
        self.i = 0
        self.trace = []

    def __call__(self, enabled, current):
        c = None
        if self.i < len(self.seq):
            c = self.seq[self.i]
        self.i += 1
        if c not in enabled:
            c = current if current in enabled else enabled[0]
        self.trace.append(c)
        return c


def explore_all(make_funcs, on_schedule, point_installer=None, limit=None):
    """Stateless DFS: runs make_funcs() under every choice sequence.
    on_schedule(results, baton, chooser) is called per complete schedule.
    Returns (#schedules, exhausted: bool)."""
    prefix = []
    n = 0
    while prefix is not None:
        ch = DFSChooser(prefix)
        b = Baton(ch)
        if point_installer:
            point_installer(b)
        res = b.run(make_funcs())
        n += 1
        on_schedule(res, b, ch)
        if b.stuck:
            return n, False
        prefix = ch.next_prefix()
        if limit and n >= limit and prefix is not None:
            return n, False
    return n, True
