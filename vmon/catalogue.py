"""Function catalogue built at run time by walking the real default context
chain, plus typed argument pools and call rendering.

An argument is an Arg: either a python value bound to a context variable
(kind 'var') or a piece of yaql text (kind 'text': lambdas, keywords, mapping
rules, constants).  render() turns (overload, args) into expression text in a
chosen spelling plus the variables to bind.
"""
import collections
import datetime
import re

import yaql
from yaql.language import specs as yspecs
from yaql.language import utils as yutils
from yaql.language import yaqltypes as yt
from yaql.standard_library import queries as yqueries
from yaql.standard_library import yaqlized as yyaqlized

NO_DEFAULT = yspecs.NO_DEFAULT


class Param:
    def __init__(self, key, pd, position):
        self.key = key
        self.pd = pd
        self.name = pd.alias or pd.name
        self.pyname = pd.name
        self.type = pd.value_type
        self.default = pd.default
        self.has_default = pd.default is not NO_DEFAULT
        self.position = position        # visible position, None for keyword-only / **
        self.kind = ('varargs' if key == '*' else 'kwargs' if key == '**' else
                     'kwonly' if pd.position is None else 'pos')
        self.lazy = isinstance(pd.value_type, yt.LazyParameterType)
        self.tclass = tclass(pd.value_type)
        self.nullable = getattr(pd.value_type, 'nullable', True)

    def __repr__(self):
        return '%s:%s' % (self.name, self.tclass)


def tclass(t):
    if isinstance(t, yyaqlized.Yaqlized):
        return 'yaqlized'
    if isinstance(t, yt.String):
        return 'string'
    if isinstance(t, yt.Integer):
        return 'integer'
    if isinstance(t, yt.Number):
        return 'number'
    if isinstance(t, yt.DateTime):
        return 'datetime'
    if isinstance(t, yt.Iterator):
        return 'iterator'
    if isinstance(t, yt.Iterable):
        return 'iterable'
    if isinstance(t, yt.Sequence):
        return 'sequence'
    if isinstance(t, yt.Lambda):
        return 'lambda'
    if isinstance(t, yt.MappingRule):
        return 'mappingrule'
    if isinstance(t, yt.Keyword):
        return 'keyword'
    if isinstance(t, yt.StringConstant):
        return 'strconst'
    if isinstance(t, yt.YaqlExpression):
        return 'expr'
    if isinstance(t, yt.HiddenParameterType):
        return 'hidden'
    if isinstance(t, yt.PythonType):
        pt = t.python_type
        if pt is int:
            return 'int'
        if pt is bool:
            return 'bool'
        if pt is object:
            return 'any'
        if pt is type(None):
            return 'none'
        if pt is datetime.timedelta:
            return 'timespan'
        if pt is datetime.datetime:
            return 'datetime_raw'
        if pt is yutils.MappingType:
            return 'mapping'
        if pt is yutils.SetType:
            return 'set'
        if pt is yutils.MappingRule:
            return 'rulevalue'
        if pt is yqueries.OrderingIterable:
            return 'ordering'
        if pt is collections.abc.Iterator:
            return 'iterator_raw'
        if isinstance(pt, type) and pt.__name__ in ('Pattern',):
            return 'regex'
        if isinstance(pt, type) and pt.__name__ == 'ContextBase':
            return 'context'
        return 'py:%s' % getattr(pt, '__name__', pt)
    return 'other:%s' % type(t).__name__


class Overload:
    def __init__(self, fd, layer):
        self.fd = fd
        self.layer = layer
        self.name = fd.name
        self.is_function = fd.is_function
        self.is_method = fd.is_method
        self.no_kwargs = fd.no_kwargs
        self.payload = fd.payload
        self.qual = '%s.%s' % (fd.payload.__module__.split('.')[-1], fd.payload.__name__)
        self.code_owner = fd.payload      # the function whose code object identifies this overload
        if self.name.startswith('#property#'):
            self.qual += '[' + self.name[len('#property#'):] + ']'
            for cell in (fd.payload.__closure__ or ()):
                if callable(cell.cell_contents):
                    self.code_owner = cell.cell_contents
        vis = []
        for key, pd in fd.parameters.items():
            if isinstance(pd.value_type, yt.HiddenParameterType):
                continue
            vis.append((key, pd))
        pos = sorted([kp for kp in vis if kp[1].position is not None and kp[0] != '*'],
                     key=lambda kp: kp[1].position)
        self.params = [Param(k, pd, i) for i, (k, pd) in enumerate(pos)]
        self.varargs = None
        self.kwargs = None
        self.kwonly = []
        for k, pd in vis:
            if k == '*':
                self.varargs = Param(k, pd, len(self.params))
            elif k == '**':
                self.kwargs = Param(k, pd, None)
            elif pd.position is None:
                self.kwonly.append(Param(k, pd, None))
        self.syntax = syntax_of(self)

    @property
    def ident(self):
        return '%s@%s' % (self.name, self.qual)

    def __repr__(self):
        return '<%s %s(%s%s)>' % (self.name, self.qual, ', '.join(map(repr, self.params)),
                                  ', *' + repr(self.varargs) if self.varargs else '')


def syntax_of(o):
    n = o.name
    if n.startswith('#operator_'):
        return ('binop', n[len('#operator_'):])
    if n.startswith('#unary_operator_'):
        return ('unop', n[len('#unary_operator_'):])
    if n == '*equal':
        return ('binop', '=')
    if n == '*not_equal':
        return ('binop', '!=')
    if n == '#indexer':
        return ('indexer',)
    if n == '#list':
        return ('list',)
    if n == '#map':
        return ('map',)
    if n.startswith('#property#'):
        return ('property', n[len('#property#'):])
    if n == '#get_context_data':
        return ('var',)
    if n.startswith('#'):
        return ('internal',)
    return ('call',)


def layers_of(ctx):
    out = []
    while ctx is not None:
        out.append(ctx)
        ctx = ctx.parent
    return out


def build(ctx=None):
    ctx = ctx or yaql.create_context()
    out = []
    for li, layer in enumerate(layers_of(ctx)):
        funcs = getattr(layer, '_functions', {})
        for name in sorted(funcs):
            for fd in sorted(funcs[name], key=lambda f: (f.payload.__module__, f.payload.__name__,
                                                          f.payload.__code__.co_firstlineno)):
                out.append(Overload(fd, li))
    return out


# --------------------------------------------------------------------------
# arguments

class Arg:
    __slots__ = ('kind', 'value', 'text', 'label')

    def __init__(self, kind, value=None, text=None, label=None):
        self.kind = kind      # 'var' | 'text'
        self.value = value    # for 'var': a python value or a zero-arg factory (wrapped in Fresh)
        self.text = text
        self.label = label or (text if kind == 'text' else repr(value)[:40])

    def __repr__(self):
        return 'Arg(%s)' % self.label


class Fresh:
    """a factory producing a fresh value per evaluation (iterators, mutable containers)"""

    def __init__(self, f, label):
        self.f = f
        self.label = label

    def __call__(self):
        return self.f()


def var(value, label=None):
    return Arg('var', value=value, label=label or (value.label if isinstance(value, Fresh) else None))


def text(t):
    return Arg('text', text=t)


class YObj:
    """a yaqlized host object (default settings: everything public is reachable)"""
    def __init__(self):
        self.a = 1
        self.b = [1, 2]
        self.length = 3

    def m(self, x=0):
        return x + 1

    def __getitem__(self, key):
        return {'a': 1, 'k': 2, 1: 'one'}.get(key)


from yaql import yaqlization as _yz   # noqa: E402
_yz.yaqlize(YObj)

UTC = datetime.timezone.utc
DT1 = datetime.datetime(2020, 2, 29, 12, 30, 15, 250, tzinfo=UTC)
DT2 = datetime.datetime(1999, 12, 31, 23, 59, 59, tzinfo=datetime.timezone(datetime.timedelta(hours=3)))
TS1 = datetime.timedelta(days=1, seconds=3, microseconds=7)
TS2 = datetime.timedelta(seconds=-90)


def pool(tc, name=''):
    """well-typed argument candidates for a parameter class; first entries are the most ordinary"""
    P = {
        'string': [var('abc'), var(''), var('a,b c'), var('Hello World'), var('  x  '), var('é中')],
        'integer': [var(2), var(0), var(1), var(-1), var(5)],
        'int': [var(2), var(0), var(1), var(-1), var(3)],
        'number': [var(2), var(1.5), var(0), var(-3), var(10)],
        'bool': [var(True), var(False)],
        'any': [var(1), var('a'), var(None), var(True), var((1, 2)), var(2.5), var(yutils.FrozenDict({'a': 1}))],
        'none': [var(None)],
        'iterable': [var((1, 2, 3)), var(()), var((3, 1, 2, 1)), var(Fresh(lambda: iter([1, 2, 3]), 'iter([1,2,3])')),
                     var(frozenset([1, 2])), var(('a', 'b')), var(((1, 2), (3, 4))), var([1, 2, 3])],
        'iterator': [var(Fresh(lambda: iter([1, 2, 3]), 'iter([1,2,3])')), var(Fresh(lambda: iter([]), 'iter([])'))],
        'iterator_raw': [var(Fresh(lambda: iter([1, 2, 3]), 'iter([1,2,3])'))],
        'sequence': [var((1, 2, 3)), var(()), var(('a', 'b')), var([1, 2, 3])],
        'mapping': [var(yutils.FrozenDict({'a': 1, 'b': 2})), var(yutils.FrozenDict()), var({'a': 1, 'c': {'d': 2}}),
                    var(yutils.FrozenDict({1: 'x'}))],
        'set': [var(frozenset([1, 2, 3])), var(frozenset()), var(frozenset(['a'])), var({1, 2})],
        'lambda': [text('$'), text('$ > 1'), text('$ * 2'), text('true'), text('[$]'), text('$1 + $2'), text('null')],
        'mappingrule': [text('a => 1'), text('$x => 2'), text("'k' => [1]")],
        'rulevalue': [text('a => 1'), text("'k' => 2")],
        'keyword': [text('a'), text('b'), text('length')],
        'strconst': [text("'x'"), text("'a'")],
        'expr': [text('a'), text('len()'), text('$')],
        'datetime': [var(DT1), var(DT2)],
        'datetime_raw': [var(DT1), var(DT2)],
        'timespan': [var(TS1), var(TS2), var(datetime.timedelta(0))],
        'regex': [var(re.compile('a+')), var(re.compile('(b)(c)?'))],
        'context': [text('let(x => 1)')],
        'ordering': [text('[3, 1, 2].orderBy($)')],
        'yaqlized': [var(Fresh(lambda: YObj(), 'YObj()'))],
    }
    return P.get(tc, [var(1)])


NAME_OVERRIDES = {
    ('datetime', 'string'): [var('2020-02-29T12:30:15Z'), var('2001-01-01')],
    ('datetime', 'format'): [var(None), var('%Y-%m-%d')],
    ('format', 'format'): [var('%Y-%m-%d %H:%M'), var('%j')],
    ('datetime', 'year'): [var(2020), var(1999)],
    ('datetime', 'month'): [var(2), var(12)],
    ('datetime', 'day'): [var(28), var(1)],
    ('datetime', 'hour'): [var(0), var(23)],
    ('datetime', 'minute'): [var(0), var(59)],
    ('datetime', 'second'): [var(0), var(59)],
    ('datetime', 'microsecond'): [var(0), var(999999)],
    ('datetime', 'timestamp'): [var(0), var(1582979415.25), var(-1)],
    ('replace', 'month'): [var(None), var(3)],
    ('replace', 'day'): [var(None), var(1)],
    ('regex', 'pattern'): [var('a+'), var('(b)(c)?'), var('[')],
    ('regex.matches_', 'regexp'): [var('a+'), var('^abc$')],
    ('call', 'name'): [var('len'), var('str'), var('nosuch')],
    ('call', 'args'): [var(((1, 2),)), var(('abc',)), var(())],
    ('call', 'kwargs'): [var(yutils.FrozenDict()), var(yutils.FrozenDict({'value': 1}))],
    ('def', 'name'): [var('foo')],
    ('unpack', 'args'): [var('a'), var('b')],
    ('shiftBitsLeft', 'bitsNumber'): [var(2), var(0)],
    ('shiftBitsRight', 'bitsNumber'): [var(2), var(0)],
    ('pow', 'b'): [var(2), var(0), var(3)],
    ('pow', 'c'): [var(None), var(7)],
    ('round', 'ndigits'): [var(0), var(1)],
    ('range', 'stop'): [var(5), var(0), var(3)],
    ('range', 'start'): [var(0), var(2)],
    ('range', 'step'): [var(1), var(2)],
    ('repeat', 'times'): [var(3), var(0)],
    ('sequence', 'start'): [var(0), var(5)],
    ('sequence', 'step'): [var(1), var(2)],
    ('cycle', 'collection'): [var((1, 2))],
    ('timespan', 'days'): [var(0), var(1)],
    ('enumerate', 'start'): [var(0), var(5)],
    ('random', 'from'): [var(1)],
    ('random', 'to'): [var(1)],
    ('switchCase', 'case'): [var(0), var(1), var(5)],
    ('generate', 'predicate'): [text('$ < 5')],
    ('generate', 'producer'): [text('$ + 1')],
    ('generateMany', 'producer'): [text('[]'), text('switch($ < 3 => [$ + 1], true => [])')],
    ('generateMany', 'initial'): [var(1)],
    ('generate', 'initial'): [var(1)],
    ('join', 'predicate'): [text('$1 = $2'), text('true')],
    ('join', 'selector'): [text('[$1, $2]')],
    ('aggregate', 'selector'): [text('$1 + $2')],
    ('reduce', 'selector'): [text('$1 + $2')],
    ('accumulate', 'selector'): [text('$1 + $2')],
    ('aggregate', 'seed'): [var(0), var(10)],
    ('reduce', 'seed'): [var(0)],
    ('accumulate', 'seed'): [var(0)],
    ('sum', 'initial'): [var(0), var(10)],
    ('sum', 'collection'): [var((1, 2, 3)), var(())],
    ('max', 'collection'): [var((1, 3, 2))],
    ('min', 'collection'): [var((1, 3, 2))],
    ('toDict', 'keySelector'): [text('$'), text('str($)')],
    ('groupBy', 'keySelector'): [text('$ mod 2'), text('$')],
    ('groupBy', 'aggregator'): [text('null'), text('$.len()'), text('[$[0], $[1].len()]')],
    ('mergeWith', 'maxLevels'): [var(0), var(1)],
    ('mergeWith', 'listMerger'): [text('null'), text('$1 + $2')],
    ('mergeWith', 'itemMerger'): [text('null'), text('$1')],
    ('zipLongest', 'kwargs'): [],
    ('assert', 'condition'): [text('false'), text('true'), text('$ != null')],
    ('dict', 'items'): [var((('a', 1), ('b', 2))), var(())],
    ('replace', 'replacements'): [var(yutils.FrozenDict({'a': 'x', 'b': 'y'}))],
    ('set', 'replacements'): [var(yutils.FrozenDict({'z': 9}))],
    ('#operator_->', 'left'): [text('let(x => 1)')],
    ('#operator_.', 'expr'): [text('len()'), text('toUpper()'), text('m(1)')],
    ('#operator_.', 'receiver'): [var('abc'), var((1, 2)), var(Fresh(lambda: YObj(), 'YObj()'))],
    ('#operator_?.', 'expr'): [text('len()'), text('toUpper()')],
    ('#operator_?.', 'receiver'): [var('abc'), var(None)],
    ('#indexer', 'key'): [var('a'), var(1), var('k')],
    ('#indexer', 'index'): [var(0), var(-1), var(1)],
    ('#operator_->', 'right'): [text('$x')],
    ('with', 'args'): [var(1), var('a')],
    ('let', 'args'): [var(1)],
    ('selectCase', 'args'): [text('$ > 100'), text('true')],
    ('selectAllCases', 'args'): [text('$ > 100'), text('true')],
    ('examine', 'args'): [text('false'), text('true')],
    ('coalesce', 'args'): [text('null'), text('1')],
    ('switchCase', 'args'): [text('1'), text("'b'")],
    ('splitAt', 'index'): [var(1), var(0), var(10)],
    ('slice', 'length'): [var(2), var(1)],
    ('hex', 'num'): [var(255), var(0)],
    ('int', 'value'): [var('12'), var(3.7), var(None), var(5)],
    ('float', 'value'): [var('1.5'), var(3), var(None)],
}


def candidates(o, p):
    ov = NAME_OVERRIDES.get((o.qual, p.name))
    if ov is None:
        ov = NAME_OVERRIDES.get((o.name, p.name))
    if ov is not None:
        return ov
    return pool(p.tclass, p.name)


def materialize(arg):
    v = arg.value
    return v() if isinstance(v, Fresh) else v


# --------------------------------------------------------------------------
# rendering

class Call:
    """one concrete invocation: positional args (Arg or SKIP), keyword args, spelling"""

    def __init__(self, o, pos, kw=None, form='auto'):
        self.o = o
        self.pos = list(pos)
        self.kw = dict(kw or {})
        self.form = form


SKIP = object()


def render(o, pos, kw=None, form='auto', call_via=None):
    """returns (text, vars) or None when the spelling does not exist.
    form: 'function' | 'method' | 'auto' (method if only a method) ; operators ignore it."""
    kw = kw or {}
    vars_ = {}

    def spell(a):
        if a is SKIP:
            return ''
        if a.kind == 'text':
            return a.text
        name = 'v%d' % len(vars_)
        vars_[name] = a
        return '$' + name

    syn = o.syntax
    if syn[0] == 'binop':
        if len(pos) != 2 or kw or SKIP in pos:
            if syn[1] == '+' and len(pos) >= 2 and not kw and SKIP not in pos:
                return ' + '.join('(%s)' % spell(a) if a.kind == 'text' else spell(a) for a in pos), vars_
            return None
        a, b = pos
        sa = spell(a)
        sb = spell(b)
        if a.kind == 'text' and syn[1] not in ('->',):
            sa = '(%s)' % sa
        if b.kind == 'text' and syn[1] not in ('.', '?.', '->'):
            sb = '(%s)' % sb
        return '%s %s %s' % (sa, syn[1], sb), vars_
    if syn[0] == 'unop':
        if len(pos) != 1 or kw:
            return None
        return '%s %s' % (syn[1], spell(pos[0])), vars_
    if syn[0] == 'indexer':
        if len(pos) < 2 or kw:
            return None
        return '%s[%s]' % (spell(pos[0]), ', '.join(spell(a) for a in pos[1:])), vars_
    if syn[0] == 'list':
        if kw:
            return None
        return '[%s]' % ', '.join(spell(a) for a in pos), vars_
    if syn[0] == 'map':
        if kw:
            return None
        return '{%s}' % ', '.join(spell(a) for a in pos), vars_
    if syn[0] == 'property':
        if len(pos) != 1 or kw:
            return None
        return '%s.%s' % (spell(pos[0]), syn[1]), vars_
    if syn[0] in ('var', 'internal'):
        return None
    # ordinary call
    if form == 'auto':
        form = 'function' if o.is_function else 'method'
    if form == 'function' and not o.is_function:
        form = 'function!'
    parts = []
    args = list(pos)
    recv = None
    if form.startswith('method'):
        if not args or args[0] is SKIP:
            return None
        recv = args.pop(0)
    parts = [spell(a) for a in args]
    # recv must be spelled first for stable variable numbering: re-spell
    if recv is not None:
        vars_.clear()
        rs = spell(recv)
        if recv.kind == 'text':
            rs = '(%s)' % rs
        parts = [spell(a) for a in args]
    for k, a in kw.items():
        parts.append('%s => %s' % (k, spell(a)))
    inner = ', '.join(parts)
    if recv is not None:
        return '%s.%s(%s)' % (rs, o.name, inner), vars_
    return '%s(%s)' % (o.name, inner), vars_


def bind(ctx, vars_):
    for name, a in vars_.items():
        ctx[name] = materialize(a)
    return ctx


def basic_args(o, rng=None, choice=0):
    """one well-typed positional argument tuple (required + defaulted params, one vararg)"""
    args = []
    for p in o.params:
        c = candidates(o, p)
        if not c:
            return None
        args.append(c[choice % len(c)] if rng is None else rng.choice(c))
    if o.varargs is not None:
        c = candidates(o, o.varargs)
        if c:
            n = 2 - len(o.params) if o.syntax[0] == 'binop' else 2 if o.varargs.tclass in ('lambda', 'mappingrule', 'rulevalue') else (1 if rng is None else rng.choice((0, 1, 2)))
            for i in range(n):
                args.append(c[(choice + i) % len(c)] if rng is None else rng.choice(c))
    return args
