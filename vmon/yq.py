"""Helpers around the real yaql objects: engines, canonical trees, outcomes."""
import yaql
from yaql.language import exceptions as yexc
from yaql.language import expressions as yexpr
from yaql.language import utils as yutils

NO_VALUE = yutils.NO_VALUE


def engine(options=None, allow_delegates=False, legacy=False, keyword_operator='=>'):
    if legacy:
        from yaql import legacy as ylegacy
        f = ylegacy.YaqlFactory(allow_delegates=allow_delegates)
    else:
        f = yaql.YaqlFactory(keyword_operator=keyword_operator,
                             allow_delegates=allow_delegates)
    return f.create(options=options or {})


def unwrap(n):
    while True:
        if isinstance(n, yexpr.Wrap):
            n = n.expr
        elif isinstance(n, yexpr.Statement):
            n = n.expression
        else:
            return n


def children(n):
    if isinstance(n, yexpr.GetContextValue):
        return []
    if isinstance(n, yexpr.Function):
        return [a for a in n.args if a is not NO_VALUE]
    if isinstance(n, yexpr.MappingRuleExpression):
        return [n.source, n.destination]
    return []


def canon_tree(root):
    """Canonical s-expression *string* of a parsed tree (Wrap transparent),
    built iteratively so that very deep trees need no Python recursion."""
    root = unwrap(root)
    res = {}
    stack = [(root, False)]
    while stack:
        n, done = stack.pop()
        if done:
            res[id(n)] = _canon_one(n, res)
        else:
            stack.append((n, True))
            for c in children(n):
                stack.append((unwrap(c), False))
    return res[id(root)]


def _args(n, res):
    return ''.join(' _' if a is NO_VALUE else ' ' + res[id(unwrap(a))] for a in n.args)


def _canon_one(n, res):
    if isinstance(n, yexpr.GetContextValue):
        return '(var %s)' % n.path.value
    if isinstance(n, yexpr.BinaryOperator):
        return '(bin %s %s%s)' % (n.operator, n.name, _args(n, res))
    if isinstance(n, yexpr.UnaryOperator):
        return '(un %s %s%s)' % (n.operator, n.name, _args(n, res))
    if isinstance(n, yexpr.IndexExpression):
        return '(index%s)' % _args(n, res)
    if isinstance(n, yexpr.ListExpression):
        return '(list%s)' % _args(n, res)
    if isinstance(n, yexpr.MapExpression):
        return '(map%s)' % _args(n, res)
    if isinstance(n, yexpr.Function):
        return '(call %s%s)' % (n.name, _args(n, res))
    if isinstance(n, yexpr.MappingRuleExpression):
        return '(rule %s %s)' % (res[id(unwrap(n.source))], res[id(unwrap(n.destination))])
    if isinstance(n, yexpr.KeywordConstant):
        return '(kw %s)' % n.value
    if isinstance(n, yexpr.Constant):
        return '(const %s %r)' % (type(n.value).__name__, n.value)
    return '(? %s)' % type(n).__name__


def parse_outcome(eng, text):
    """Canonical outcome of parsing: ('tree', sexpr) or ('error', class, value,
    position, message)."""
    try:
        st = eng(text)
    except yexc.YaqlParsingException as e:
        return ('error', type(e).__name__, repr(e.value), e.position, str(e))
    except BaseException as e:  # anything else is itself noteworthy (C03)
        return ('exception', type(e).__name__, str(e)[:200])
    return ('tree', canon_tree(st.expression))


def function_names(root):
    """names of all functions a parsed statement dispatches by itself (operators included)"""
    out = set()
    stack = [unwrap(root)]
    while stack:
        n = stack.pop()
        if isinstance(n, yexpr.Function):
            out.add(n.name)
        for c in children(n):
            stack.append(unwrap(c))
    return out
