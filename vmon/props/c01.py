"""C01 - a shared engine parses every text as if it were alone.

Oracle: canonical parse outcome of each text on a never-used engine of the
same factory.  Monitors: (1) histories on one engine, (2) 2-3 concurrent
parses on one engine under the baton scheduler with a scheduling point at
every ply Lexer.token entry (exhaustive DFS for short texts, random for long
ones), (3) free-running threads at 1 us switch interval, (4) aftermath: the
pool parsed again sequentially on the engine that went through all that.
"""
import itertools
import sys
import threading

from ply import lex as plylex
import yaql
from yaql.language import factory as yfactory
from yaql.language import lexer as ylexer
from yaql.language import parser as yparser

from vmon import hooks
from vmon import sched
from vmon import yq
from vmon.core import rng_for

RULE = ('a case is (texts, engine-access variants, schedule) or a history (sequence of texts on one engine); '
        'distinct by that tuple; non-trivial = concurrent schedule in which the baton moved between two token '
        'fetches of one parse at least once, or history with >= 2 different texts')
ASSUMPTIONS = [
    'interleavings are explored at token-fetch granularity (entry of ply Lexer.token); between two points a '
    'thread runs atomically in the controlled mode; finer switches are only sampled by the free-running mode',
    'baseline = outcome on a freshly created engine of the same factory, one engine per distinct text',
]
REQUIRED = {'free.new_literal_parses': 2000, 'configs.parses': 1000, 'configs.distinct_baseline_behaviours': 4, 'cold.schedules': 100, 'cold.with_switch_inside_first_use': 50, 'sched.schedules': 50, 'sched.with_mid_parse_switch': 20, 'hook.token_points': 200,
            'history.sequences': 5, 'free.parses': 100, 'reach.YaqlEngine.__call__': 100}
EXHAUSTIVE = ('all interleavings of the token-fetch sequences of every ordered pair of the short-text pool '
              '(2 threads); thorough adds all 3-thread interleavings of <=3-token texts')

SHORT = ['1 + 2', 'foo(3) * 4', '$a.b', "'x' +", '1 # 2', '[1, 2]', 'a => ', '-1', '$.x(', '"q" in $', '', 'x y']
LONG = [
    "[1, 2, 3].select($ * 2).where($ > 2).len() + $.a.b.c[0] * (1 - 2)",
    "dict(a => 1, b => [1, 2, {c => 3}]).set(d, 'some \\'quoted\\' text').keys().orderBy($)",
    "let(x => 1, y => 2) -> $x + $y * foo(bar(baz($x, $y)), , 3) and not $z or 'lit' in ['lit']",
    "1 + 2 + 3 + 4 + 5 + 6 + 7 + 8 + 9 + 10 +",          # grammar error at the end
    "$.items().where($[0] != 'k').select([$[0], $[1] # ])",  # lexical error in the middle
    "`verbatim \\` string` + \"double \\\" quoted\" + 'single \\' quoted' + `x`",
    "a.b.c.d.e.f.g.h.i.j.k.l.m.n.o.p",
    "switch($ > 1 => 'a', $ > 2 => 'b', true => 'c') ]",    # grammar error
    "@ starts with an illegal character",
    "x(1,,2,,3, k => v)",
]


# near-duplicates: texts that a too-coarse cache key (collapsed whitespace, case folding, stripping, truncation) would
# confuse with one another, valid and invalid
_P = "$.items.where($.price > 10).select($.name).orderBy($).take(3).join(', ') + ' and some more text to be long'"
NEAR_DUPLICATES = [
    "'a b'", "'a  b'", "'a\tb'", "'A b'", " 'a b' ", "1 + )", "1 +      )", "  1 + )", "1 + ) ", "`p q`", "`p   q`",
    "abc", "ABC", "abc ", " abc", "$x.y", "$x .y", "$x. y", "$X.y", "[1,2]", "[1, 2]", "[ 1 ,2 ]", "[1,2 ]]",
    _P, _P + " ", _P[:-1] + "!'", _P + " +", _P.replace('10', '11'), _P.upper() if False else _P.replace('name', 'Name'),
    "'x' # 1", "'x'  # 1", "'X' # 1",
]


def pools(tier):
    short = list(SHORT)
    long_ = list(LONG) + NEAR_DUPLICATES
    if tier == 'thorough':
        short += ['not true', '$x[0]', '{a => 1}', 'f()', '1 2', '$', "'\\x41'", 'a.b(', 'null = null',
                  '1 +', '$ $', ')']
    return short, long_


class Baselines:
    """outcome(text) on a never-used engine of the same factory."""

    def __init__(self, make_engine):
        self.make = make_engine
        self.cache = {}

    def get(self, text):
        if text not in self.cache:
            self.cache[text] = yq.parse_outcome(self.make(), text)
        return self.cache[text]


def make_default():
    return yaql.YaqlFactory().create()


def access(eng, variant, text):
    """the ways a host reaches the shared lexer/parser of one engine"""
    if variant == 'direct':
        return yq.parse_outcome(eng, text)
    if variant == 'copy':
        return yq.parse_outcome(eng.copy({'yaql.limitIterators': 100}), text)
    if variant == 'options':
        return yq.parse_outcome(lambda t: eng(t, options={'yaql.memoryQuota': 100000}), text)
    raise ValueError(variant)


class TokenPoints:
    """class-level patch of ply.lex.Lexer.token: scheduling point + counter."""

    def __init__(self):
        self.patches = hooks.Patches()
        self.baton = None
        self.count = 0
        orig = plylex.Lexer.token
        tp = self

        def token(lexer_self):
            tp.count += 1
            b = tp.baton
            if b is not None:
                b.point('token')
            return orig(lexer_self)
        self.patches.set(plylex.Lexer, 'token', token)

    def close(self):
        self.patches.restore()


def plan(tier, seed):
    short, long_ = pools(tier)
    shards = []
    pairs = [(a, b) for a in range(len(short)) for b in range(len(short))]
    nsh = 12
    for p in range(nsh):
        shards.append({'name': 'pairs-%d' % p, 'kind': 'pairs', 'pairs': pairs[p::nsh],
                       'cap': 8000 if tier == 'quick' else 200000, 'timeout': 900 if tier == 'quick' else 3000})
    shards.append({'name': 'random3', 'kind': 'random', 'count': 2000 if tier == 'quick' else 25000,
                   'threads': 3, 'timeout': 900})
    shards.append({'name': 'random2long', 'kind': 'random', 'count': 1500 if tier == 'quick' else 25000,
                   'threads': 2, 'timeout': 900})
    if tier == 'thorough':
        for p in range(4):
            shards.append({'name': 'random-more-%d' % p, 'kind': 'random', 'count': 25000,
                           'threads': 2 + p % 2, 'timeout': 1800})
        tiny = [i for i, t in enumerate(short) if len(t) <= 5]
        triples = [(a, b, c) for a in tiny for b in tiny for c in tiny if a <= b <= c]
        for p in range(6):
            shards.append({'name': 'triples-%d' % p, 'kind': 'triples', 'triples': triples[p::6],
                           'cap': 4000, 'timeout': 3000})
    shards.append({'name': 'history', 'kind': 'history', 'count': 200 if tier == 'quick' else 3000})
    shards.append({'name': 'free', 'kind': 'free', 'iters': 400 if tier == 'quick' else 6000,
                   'threads': 8, 'timeout': 900})
    shards.append({'name': 'evalcache', 'kind': 'evalcache', 'count': 300 if tier == 'quick' else 3000})
    for p in range(2 if tier == 'quick' else 6):
        shards.append({'name': 'free-literals-%d' % p, 'kind': 'free-literals', 'iters': 600 if tier == 'quick' else 4000,
                       'threads': 8, 'timeout': 1800})
    for p in range(2 if tier == 'quick' else 8):
        shards.append({'name': 'configs-%d' % p, 'kind': 'configs', 'count': 30 if tier == 'quick' else 300})
    for p in range(8 if tier == 'quick' else 16):
        shards.append({'name': 'cold-%d' % p, 'kind': 'cold', 'groups': 2 if tier == 'quick' else 40, 'timeout': 3000})
    return shards


def _compare(rec, phase, text, got, want, extra):
    if got != want:
        kind = 'outcome-differs-from-fresh-engine'
        rec.violation('%s:%s' % (phase, kind),
                      'text %r on the shared engine gave %r, on a fresh engine %r' % (text, got, want),
                      dict(extra, phase=phase))
        return False
    return True


def run_shard(spec, rec):
    tier = spec['tier']
    short, long_ = pools(tier)
    base = Baselines(make_default)
    reach = hooks.Reach()
    reach.watch(yfactory.YaqlEngine.__call__, 'YaqlEngine.__call__')
    reach.watch(plylex.Lexer.input, 'Lexer.input')
    reach.watch(ylexer.Lexer.t_error, 'Lexer.t_error')
    reach.watch(yparser.Parser.p_error, 'Parser.p_error')
    reach.start()
    tp = TokenPoints()
    try:
        kind = spec['kind']
        if kind in ('pairs', 'triples'):
            _systematic(spec, rec, short, base, tp)
        elif kind == 'random':
            _random(spec, rec, short + long_, base, tp)
        elif kind == 'history':
            _history(spec, rec, short + long_, base)
        elif kind == 'free':
            _free(spec, rec, short + long_, base)
        elif kind == 'evalcache':
            _evalcache(spec, rec, short + long_, base)
        elif kind == 'cold':
            _cold(spec, rec, short + long_, base)
        elif kind == 'configs':
            _configs(spec, rec, short + long_)
        elif kind == 'free-literals':
            _free_literals(spec, rec)
        rec.count('hook.token_points', tp.count)
    finally:
        tp.close()
        reach.flush(rec)
        reach.stop()


VARIANTS = ('direct', 'copy', 'options')


def _one_schedule(eng, texts, variants, chooser, tp):
    b = sched.Baton(chooser)
    tp.baton = b
    try:
        funcs = [(lambda t=t, v=v: access(eng, v, t)) for t, v in zip(texts, variants)]
        res = b.run(funcs)
    finally:
        tp.baton = None
    return res, b


def _judge(rec, phase, eng, texts, variants, res, b, chooser_desc, base):
    ok = True
    for t, v, r in zip(texts, variants, res):
        if r is None or r[0] == 'aborted':
            rec.inconc('schedule aborted by watchdog for texts %r' % (texts,))
            return False
        got = r[1] if r[0] == 'ok' else ('exception', type(r[1]).__name__, str(r[1])[:200])
        ok &= _compare(rec, phase, t, got, base.get(t),
                       {'texts': list(texts), 'variants': list(variants), 'schedule': chooser_desc})
    return ok


def _aftermath(rec, eng, pool, base):
    for t in pool:
        rec.count('aftermath.parses')
        _compare(rec, 'aftermath', t, yq.parse_outcome(eng, t), base.get(t), {'texts': [t]})


def _systematic(spec, rec, short, base, tp):
    eng = make_default()
    groups = spec.get('pairs') or spec.get('triples')
    for gi, idxs in enumerate(groups):
        texts = [short[i] for i in idxs]
        variants = ['direct'] * len(texts)
        if gi % 5 == 3:
            variants[0] = 'copy'
        if gi % 7 == 5:
            variants[-1] = 'options'
        prefix = []
        n = 0
        complete = True
        while prefix is not None:
            ch = sched.DFSChooser(prefix)
            res, b = _one_schedule(eng, texts, variants, ch, tp)
            n += 1
            rec.count('sched.schedules')
            mid = b.switches > 0
            if mid:
                rec.count('sched.with_mid_parse_switch')
            rec.case((tuple(texts), tuple(variants), tuple(t[0] for t in ch.trace)), nontrivial=mid)
            _judge(rec, 'concurrent', eng, texts, variants, res, b,
                   {'mode': 'dfs', 'prefix': [t[0] for t in ch.trace]}, base)
            if b.stuck:
                complete = False
                break
            prefix = ch.next_prefix()
            if n >= spec['cap'] and prefix is not None:
                complete = False
                rec.count('sched.groups_capped')
                break
        if complete:
            rec.count('sched.groups_exhausted')
        if gi == 0:
            rec.sample({'texts': texts, 'variants': variants, 'schedules_executed': n, 'exhausted': complete,
                        'last_choice_trace': [t[0] for t in ch.trace]})
    _aftermath(rec, eng, short, base)


def _random(spec, rec, pool, base, tp):
    rng = rng_for(spec['seed'], 'c01', spec['name'])
    eng = make_default()
    for i in range(spec['count']):
        k = spec['threads']
        texts = [rng.choice(pool) for _ in range(k)]
        variants = [rng.choice(VARIANTS) if rng.random() < 0.3 else 'direct' for _ in range(k)]
        ch = sched.RandomChooser(rng, switch_prob=rng.choice((0.1, 0.3, 0.6)))
        res, b = _one_schedule(eng, texts, variants, ch, tp)
        rec.count('sched.schedules')
        mid = b.switches > 0
        if mid:
            rec.count('sched.with_mid_parse_switch')
        rec.case((tuple(texts), tuple(variants), tuple(ch.trace)), nontrivial=mid)
        _judge(rec, 'concurrent', eng, texts, variants, res, b, {'mode': 'replay', 'seq': ch.trace}, base)
        if i % 500 == 0:
            rec.sample({'texts': texts, 'variants': variants, 'thread_choice_sequence': ch.trace[:60]})
            _aftermath(rec, eng, pool[:6], base)
    _aftermath(rec, eng, pool, base)


def _history(spec, rec, pool, base):
    rng = rng_for(spec['seed'], 'c01', 'history')
    for i in range(spec['count']):
        eng = make_default() if i % 20 == 0 else eng  # noqa: F821 - reuse engines across sequences too
        seq = [rng.choice(pool) for _ in range(rng.randrange(2, 14))]
        if rng.random() < 0.4:
            seq += seq[:3]
        rec.count('history.sequences')
        rec.case(('history', tuple(seq)), nontrivial=len(set(seq)) >= 2)
        for j, t in enumerate(seq):
            v = rng.choice(VARIANTS) if rng.random() < 0.2 else 'direct'
            rec.count('history.parses')
            _compare(rec, 'history', t, access(eng, v, t), base.get(t), {'texts': seq[:j + 1]})
        if i % 50 == 0:
            rec.sample({'history': seq})


def _free(spec, rec, pool, base):
    rng = rng_for(spec['seed'], 'c01', 'free')
    eng = make_default()
    for t in pool:
        base.get(t)
    old = sys.getswitchinterval()
    sys.setswitchinterval(1e-6)
    mismatches = []
    counts = [0]
    lock = threading.Lock()
    plans = [[rng.choice(pool) for _ in range(spec['iters'])] for _ in range(spec['threads'])]
    start = threading.Barrier(spec['threads'])

    def worker(seq):
        start.wait()
        n = 0
        for t in seq:
            got = yq.parse_outcome(eng, t)
            n += 1
            if got != base.cache[t]:
                with lock:
                    mismatches.append((t, got))
        with lock:
            counts[0] += n
    try:
        ths = [threading.Thread(target=worker, args=(p,), daemon=True) for p in plans]
        for t in ths:
            t.start()
        for t in ths:
            t.join(600)
            if t.is_alive():
                rec.inconc('free-running thread did not finish within its watchdog')
    finally:
        sys.setswitchinterval(old)
    rec.count('free.parses', counts[0])
    rec.case(('free', spec['seed'], spec['threads'], spec['iters']), nontrivial=True, n=counts[0])
    rec.sample({'free_running_threads': spec['threads'], 'parses': counts[0], 'switch_interval': 1e-6})
    for t, got in mismatches[:50]:
        _compare(rec, 'free-running', t, got, base.cache[t], {'texts': [t], 'threads': spec['threads']})
    if mismatches:
        rec.count('free.mismatches', len(mismatches))
    _aftermath(rec, eng, pool, base)


def _cold(spec, rec, pool, base):
    """first use of a never-used engine by several threads at once.  Scheduling points are the statement starts
    (LINE events) of yaql/language/factory.py and yaql/__init__.py - whatever an engine does, or may one day do,
    on its first parse (building or publishing its lexer/parser) is interleaved statement by statement.  Per group:
    every single-preemption schedule in both orders, plus random double preemptions; a new engine per schedule."""
    rng = rng_for(spec['seed'], 'c01', spec['name'])
    lp = hooks.LinePoints(hooks.module_codes(yfactory, yaql)).start()
    try:
        for g in range(spec['groups']):
            k = rng.choice((2, 2, 3))
            texts = [rng.choice(pool) for _ in range(k)]
            variants = [rng.choice(VARIANTS) if rng.random() < 0.4 else 'direct' for _ in range(k)]
            plans = []
            # learn how many points thread i passes when it runs alone first
            for first in range(k):
                order = [first] + [j for j in range(k) if j != first]
                eng = make_default()
                res, b = _cold_schedule(eng, texts, variants, sched.ReplayChooser([first] * 100000), lp)
                _cold_judge(rec, eng, texts, variants, res, b, [first] * 3, base, pool)
                # ReplayChooser keeps `first` until it finishes: its own point count is the number of decisions it took
                npoints = min(b.points, 60)
                for a in range(1, npoints + 1):
                    other = order[1]
                    plans.append([first] * a + [other] * 100000)
                    if k == 3 and a % 3 == 0:
                        plans.append([first] * a + [order[2]] * (1 + a % 4) + [order[1]] * 100000)
            for _ in range(6):
                a, bb = rng.randrange(1, 20), rng.randrange(1, 20)
                o = list(range(k))
                rng.shuffle(o)
                plans.append([o[0]] * a + [o[1]] * bb + [o[0]] * rng.randrange(1, 10) + [o[-1]] * 100000)
            for seq in plans:
                eng = make_default()
                res, b = _cold_schedule(eng, texts, variants, sched.ReplayChooser(seq), lp)
                _cold_judge(rec, eng, texts, variants, res, b, _rle(seq), base, pool)
            if g == 0:
                rec.sample({'phase': 'cold-start', 'texts': texts, 'variants': variants, 'schedules': len(plans) + k})
    finally:
        lp.stop()
    rec.count('hook.line_points', lp.count)


def _rle(seq):
    out = []
    for x in seq:
        if out and out[-1][0] == x:
            out[-1][1] += 1
        else:
            out.append([x, 1])
    return out


def _cold_schedule(eng, texts, variants, chooser, lp):
    b = sched.Baton(chooser)
    lp.baton = b
    try:
        funcs = [(lambda t=t, v=v: access(eng, v, t)) for t, v in zip(texts, variants)]
        res = b.run(funcs)
    finally:
        lp.baton = None
    return res, b


def _cold_judge(rec, eng, texts, variants, res, b, rle, base, pool):
    rec.count('cold.schedules')
    if b.switches:
        rec.count('cold.with_switch_inside_first_use')
    rec.case(('cold', tuple(texts), tuple(variants), repr(rle)), nontrivial=b.switches > 0)
    for t, v, r in zip(texts, variants, res):
        if r is None or r[0] == 'aborted':
            rec.inconc('cold-start schedule aborted by watchdog for texts %r' % (texts,))
            return
        got = r[1] if r[0] == 'ok' else ('exception', type(r[1]).__name__, str(r[1])[:200])
        _compare(rec, 'cold-start', t, got, base.get(t),
                 {'texts': list(texts), 'variants': list(variants), 'schedule': {'mode': 'rle', 'rle': rle}})
    # the engine keeps working afterwards
    t = pool[0]
    _compare(rec, 'cold-start-aftermath', t, yq.parse_outcome(eng, t), base.get(t), {'texts': [t]})


CONFIGS = {
    'default': {},
    'delegates': {'allow_delegates': True},
    'legacy': {'legacy': True},
    'legacy-delegates': {'legacy': True, 'allow_delegates': True},
    'keyword-colon': {'keyword_operator': ':='},
    'no-keyword': {'keyword_operator': None},
}
CONFIG_TEXTS = ['$f(1)', '(x)(1)', '$.a(2)(3)', 'f(1)(2)', '$x.y', 'a => 1', 'f(a => 1)', 'f(a := 1)', '$a := 2', '1 + 2 * 3',
                '$.where($ > 1)', "'s'(1)", '[1, 2](0)', '{a => 1}', 'f(1, , 2)', 'a := b => c', '$($)', 'not $a(1)',
                '$a => $b', '1 =>', 'x := ']


def isolated_baseline(name, texts):
    """outcomes of the texts on an engine of ONE configuration in a process of its own: what that engine gives
    when no other engine has ever been created beside it"""
    import json
    import subprocess
    code = ('import json, sys\n'
            'from vmon import yq\n'
            'cfg, texts = json.loads(sys.stdin.read())\n'
            'eng = yq.engine(**cfg)\n'
            'print(json.dumps([yq.parse_outcome(eng, t) for t in texts]))\n')
    p = subprocess.run([sys.executable, '-c', code], input=json.dumps([CONFIGS[name], texts]).encode(),
                       stdout=subprocess.PIPE, stderr=subprocess.PIPE, timeout=600)
    if p.returncode != 0:
        raise RuntimeError('isolated baseline process failed: %s' % p.stderr.decode()[-400:])
    return {t: tuple(o) for t, o in zip(texts, json.loads(p.stdout.decode()))}


def _configs(spec, rec, pool):
    """engines of several configurations living in one process: each parses as it would alone"""
    rng = rng_for(spec['seed'], 'c01', spec['name'])
    texts = CONFIG_TEXTS + pool[:25]
    want = {name: isolated_baseline(name, texts) for name in CONFIGS}
    rec.count('configs.isolated_baselines', len(want))
    distinct = len({tuple(sorted(w.items())) for w in want.values()})
    rec.count('configs.distinct_baseline_behaviours', distinct)
    for h in range(spec['count']):
        order = list(CONFIGS)
        rng.shuffle(order)
        engines = {}
        for step in range(60):
            name = rng.choice(order[:rng.randrange(2, len(order) + 1)])
            if name not in engines or rng.random() < 0.05:
                engines[name] = yq.engine(**CONFIGS[name])         # created while other engines already exist
            t = rng.choice(texts)
            got = yq.parse_outcome(engines[name], t)
            rec.count('configs.parses')
            rec.case(('configs', name, t, tuple(sorted(engines))), nontrivial=len(engines) >= 2)
            if tuple(got) != want[name][t]:
                rec.violation('configs:outcome-differs-from-engine-alone:%s' % name,
                              'text %r on a %s engine created beside %r gave %r; alone in a process it gives %r' % (
                                  t, name, sorted(engines), got, want[name][t]),
                              {'phase': 'configs', 'texts': [t], 'config': name, 'beside': sorted(engines)})
        if h == 0:
            rec.sample({'phase': 'configs', 'configurations': sorted(CONFIGS), 'creation_order': order})


def _free_literals(spec, rec):
    """free-running threads on one engine that has already parsed thousands of distinct literals, every new text
    carrying literals no text had before (whatever an engine remembers about literals is bounded and per text)"""
    rng = rng_for(spec['seed'], 'c01', spec['name'])
    eng = make_default()
    ref = make_default()            # never shared: used by this thread only, before the others start

    def text_of(i):
        k = i % 4
        if k == 0:
            return '%d + %d' % (10 ** 6 + i, 2 * 10 ** 6 + i)
        if k == 1:
            return "'s%d' + f(%d.5)" % (i, i)
        if k == 2:
            return '[%d, "q%d"].len()' % (3 * 10 ** 6 + i, i)
        return '{k%d => %d}' % (i, 4 * 10 ** 6 + i)
    warm = 2500
    for i in range(warm):
        yq.parse_outcome(eng, text_of(i))
    nthreads, per = spec['threads'], spec['iters']
    plans = [[text_of(warm + t * per + j) for j in range(per)] for t in range(nthreads)]
    want = {t: yq.parse_outcome(ref, t) for p in plans for t in p}
    old = sys.getswitchinterval()
    sys.setswitchinterval(1e-6)
    mismatches = []
    lock = threading.Lock()
    start = threading.Barrier(nthreads)
    done = [0]

    def worker(seq):
        start.wait()
        for t in seq:
            got = yq.parse_outcome(eng, t)
            if got != want[t]:
                with lock:
                    mismatches.append((t, got))
        with lock:
            done[0] += len(seq)
    try:
        ths = [threading.Thread(target=worker, args=(p,), daemon=True) for p in plans]
        for t in ths:
            t.start()
        for t in ths:
            t.join(900)
            if t.is_alive():
                rec.inconc('free-running (new literals) thread did not finish within its watchdog')
    finally:
        sys.setswitchinterval(old)
    rec.count('free.parses', done[0])
    rec.count('free.new_literal_parses', done[0])
    rec.case(('free-literals', spec['seed'], nthreads, per), nontrivial=True, n=done[0])
    for t, got in mismatches[:30]:
        _compare(rec, 'free-running-new-literals', t, got, want[t], {'texts': [t], 'threads': nthreads})


def _evalcache(spec, rec, pool, base):
    """module-level yaql.eval shares one cached engine and an expression cache:
    the tree stored for a text must be the tree of that text."""
    rng = rng_for(spec['seed'], 'c01', 'evalcache')
    for i in range(spec['count']):
        t = rng.choice(pool)
        try:
            yaql.eval(t, data={'a': {'b': 1}})
        except Exception:
            pass
        rec.count('evalcache.calls')
    for t, st in list(yaql._cached_expressions.items()):
        got = ('tree', yq.canon_tree(st.expression))
        rec.case(('evalcache', t), nontrivial=True)
        _compare(rec, 'evalcache', t, got, base.get(t), {'texts': [t]})
    if yaql._cached_engine is not None:
        _aftermath(rec, yaql._cached_engine, pool, base)


def replay(data, rec):
    base = Baselines(make_default)
    tp = TokenPoints()
    try:
        eng = make_default()
        texts = data['texts']
        phase = data.get('phase')
        if phase == 'concurrent':
            sc = data['schedule']
            ch = sched.DFSChooser(sc['prefix']) if sc['mode'] == 'dfs' else sched.ReplayChooser(sc['seq'])
            res, b = _one_schedule(eng, texts, data['variants'], ch, tp)
            for t, r in zip(texts, res):
                print('  thread parsing %r -> %r ; fresh engine -> %r' % (t, r, base.get(t)))
            _judge(rec, 'concurrent', eng, texts, data['variants'], res, b, sc, base)
        elif phase == 'configs':
            want = isolated_baseline(data['config'], texts)
            engines = {n: yq.engine(**CONFIGS[n]) for n in data['beside'] if n != data['config']}
            engines[data['config']] = yq.engine(**CONFIGS[data['config']])
            for t in texts:
                got = yq.parse_outcome(engines[data['config']], t)
                print('  %r on a %s engine beside %r -> %r ; alone in a process -> %r' % (t, data['config'], data['beside'], got, want[t]))
                if tuple(got) != want[t]:
                    rec.violation('configs:outcome-differs-from-engine-alone:%s' % data['config'], 'replayed', data)
        elif phase == 'cold-start':
            lp = hooks.LinePoints(hooks.module_codes(yfactory, yaql)).start()
            try:
                seq = [x for x, n in data['schedule']['rle'] for _ in range(n)]
                res, b = _cold_schedule(eng, texts, data['variants'], sched.ReplayChooser(seq), lp)
            finally:
                lp.stop()
            for t, r in zip(texts, res):
                print('  thread parsing %r on the never-used engine -> %r ; alone -> %r' % (t, r, base.get(t)))
            _cold_judge(rec, eng, texts, data['variants'], res, b, data['schedule']['rle'], base, texts)
        else:
            for t in texts:
                got = yq.parse_outcome(eng, t)
                print('  %r -> %r ; fresh engine -> %r' % (t, got, base.get(t)))
                _compare(rec, phase or 'history', t, got, base.get(t), {'texts': texts})
    finally:
        tp.close()
