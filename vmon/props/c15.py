"""C15 - scalar operators form a consistent arithmetic and ordering.

Oracle: vmon.model.scalar for every (a OP b) / (OP a) over a boundary corpus,
plus law monitors over yaql's own observed outcomes (antisymmetry, <= as < or
=, trichotomy, null lowest, a = (a/b)*b + (a mod b), transitivity, ring laws).
"""
import itertools

import yaql
from yaql.language import exceptions as yexc
from yaql.standard_library import boolean as ybool
from yaql.standard_library import collections as ycoll
from yaql.standard_library import common as ycommon
from yaql.standard_library import math as ymath
from yaql.standard_library import strings as ystr

from vmon import hooks
from vmon import yq
from vmon.core import rng_for
from vmon.model import scalar as ms

RULE = ('a case is (operator, operand values) evaluated as `$a OP $b` / `OP $a` with operands bound as variables '
        '(and in literal form where a literal exists); distinct by (form, operator, operand reprs); non-trivial = every '
        'case (each cell of the operator x kind x kind matrix is a separate dispatch decision)')
ASSUMPTIONS = ['NaN and infinities are not in the corpus (laws are stated for numbers)',
               'repetition counts are kept small; OverflowError and MemoryError are one outcome class "resource"',
               '`and`/`or` follow their docstrings (return the deciding operand)']
REQUIRED = {'checked.binary': 1000, 'checked.unary': 50, 'laws.checked': 500, 'cells.distinct': 100,
            'reach.math.division': 10, 'reach.common.null_lt_right': 5, 'reach.strings.lt': 5,
            'reach.strings.string_by_int': 1, 'reach.collections.list_by_int': 1}
EXHAUSTIVE = 'all ordered pairs of the corpus under every binary scalar operator, all corpus values under every unary one'

BIN_OPS = ['+', '-', '*', '/', 'mod', '<', '<=', '>', '>=', '=', '!=', 'and', 'or', 'in']
UN_OPS = ['+', '-', 'not']


def corpus(tier):
    vals = [None, True, False,
            0, 1, -1, 2, -2, 3, 7, -7, 2 ** 31, 2 ** 63 - 1, 2 ** 63, 2 ** 63 + 1, -(2 ** 63), 10 ** 40, -10 ** 40,
            0.0, -0.0, 0.5, -0.5, 1.0, 1.5, -1.5, 2.0, 1e-300, 5e-324, 1e300, 1.7976931348623157e308, 2.0 ** 63, 0.1,
            1e16, 9007199254740993.0,
            '', 'a', 'b', 'ab', 'A', 'é', 'é', '中', '\U0001F600', ' ', '0', '1', 'true', 'null']
    if tier == 'thorough':
        vals += [4, 5, -3, 10, 100, 255, 256, 2 ** 32, 2 ** 53, 2 ** 53 + 1, 2 ** 64, -(2 ** 64), 10 ** 18, 10 ** 19,
                 10 ** 400, -10 ** 400, 3 ** 200,
                 0.25, 0.75, -2.5, 3.5, 1e-5, 1e5, 1e15, 1e17, 2.0 ** 53, 2.0 ** 53 + 2, -1e300, 1e-310, 0.3,
                 0.1 + 0.2, 1 / 3, 2 / 3, -1 / 3, 123456.789,
                 'aa', 'aB', 'Ab', 'ba', 'abc', 'abd', 'b ', ' b', '\t', '\n', 'Z', 'z', 'ß', 'ss', 'İ', 'ı', '\x00',
                 '￿', '10', '9', '-1', '1.0', 'false', 'None', "'", '"', '\\']
    return vals


def literal(v):
    if v is None:
        return 'null'
    if v is True:
        return 'true'
    if v is False:
        return 'false'
    if isinstance(v, int):
        return str(v) if v >= 0 else None
    if isinstance(v, float):
        t = format(v, 'f')
        if v < 0 or repr(v).startswith('-') or float(t) != v or len(t) > 400:
            return None
        return t
    return "'" + v.replace('\\', '\\\\').replace("'", "\\'") + "'"


class Mon:
    def __init__(self, rec):
        self.rec = rec
        self.eng = yq.engine()
        self.ctx = yaql.create_context()
        self.stmts = {}
        from yaql import legacy as ylegacy
        from yaql.language import conventions as yconv
        self.worlds = {
            'legacy': (ylegacy.YaqlFactory().create(), ylegacy.create_context()),
            'legacy-functions-current-engine': (yq.engine(), ylegacy.create_context()),
            'delegates': (yq.engine(allow_delegates=True), yaql.create_context(delegates=True)),
            'python-convention': (yq.engine(), yaql.create_context(convention=yconv.PythonConvention())),
            'no-sets-no-queries': (yq.engine(), yaql.create_context(no_sets=True, queries=False, regex=False, datetime=False)),
        }
        self.world_names = sorted(self.worlds)
        self.cells = set()
        self.reach = hooks.Reach()
        w = self.reach.watch
        for m, mod in (('math', ymath), ('common', ycommon), ('strings', ystr), ('boolean', ybool)):
            for name in dir(mod):
                f = getattr(mod, name)
                if callable(f) and getattr(f, '__module__', None) == mod.__name__ and hasattr(f, '__code__') \
                        and hasattr(f, '__yaql_function__'):
                    fd = f.__yaql_function__
                    if fd.name and (fd.name.startswith('#operator_') or fd.name.startswith('#unary_operator_')
                                    or fd.name.startswith('*')):
                        w(f, '%s.%s' % (m, name))
        w(ycoll.list_by_int, 'collections.list_by_int')
        w(ycoll.int_by_list, 'collections.int_by_list')
        self.reach.start()

    def close(self):
        self.rec.count('cells.distinct', len(self.cells))
        self.reach.flush(self.rec)
        self.reach.stop()

    def stmt(self, text, world=None):
        st = self.stmts.get((world, text))
        if st is None:
            st = self.stmts[(world, text)] = (self.worlds[world][0] if world else self.eng)(text)
        return st

    def run(self, text, **vars):
        got = self.run_in(None, text, **vars)
        # the scalar operators mean the same in the other worlds a host can set up
        self.n_runs = getattr(self, 'n_runs', 0) + 1
        w = self.world_names[self.n_runs % len(self.world_names)]
        if self.n_runs % 3 == 0:
            other = self.run_in(w, text, **vars)
            if other[0] == 'value' and isinstance(other[1], tuple):
                other = ('value', list(other[1]))      # the legacy engine keeps tuples
            self.rec.count('world.' + w)
            if not self.agree(other, got) and not (other[0] == got[0] == 'value' and other[1] == got[1] and type(other[1]) is type(got[1])):
                self.rec.violation('scalar-operator-depends-on-context-flavour:%s' % w,
                                   '%s with %r gives %r in the default world and %r in the %s world' % (text, vars, got, other, w),
                                   {'op': text, 'a': vars.get('a'), 'b': vars.get('b'), 'form': 'world', 'arity': 0})
        return got

    def run_in(self, world, text, **vars):
        ctx = (self.worlds[world][1] if world else self.ctx).create_child_context()
        for k, v in vars.items():
            ctx[k] = v
        try:
            return ('value', self.stmt(text, world).evaluate(context=ctx))
        except yexc.NoMatchingFunctionException:
            return ('error', ms.NOMATCH)
        except (OverflowError, MemoryError):
            return ('error', 'resource')
        except ZeroDivisionError:
            return ('error', 'ZeroDivisionError')
        except Exception as e:
            return ('error', type(e).__name__)

    def agree(self, got, want):
        if got[0] != want[0]:
            return False
        if got[0] == 'error':
            return got[1] == want[1]
        return ms.same(got[1], want[1])

    def binary(self, op, a, b, forms=('var',)):
        rec = self.rec
        want = ms.binary(op, a, b)
        for form in forms:
            if form == 'var':
                text = '$a %s $b' % op
                got = self.run(text, a=a, b=b)
            else:
                la, lb = literal(a), literal(b)
                if la is None or lb is None:
                    continue
                text = '%s %s %s' % (la, op, lb)
                got = self.run(text)
            rec.case((form, op, repr(a), repr(b)))
            rec.count('checked.binary')
            self.cells.add((op, ms.kind(a), ms.kind(b)))
            if not self.agree(got, want):
                rec.violation(self.mech(op, a, b, got, want),
                              '%s with a=%r b=%r gives %r, the model says %r' % (text, a, b, got, want),
                              {'op': op, 'a': a, 'b': b, 'form': form, 'arity': 2})
        return want

    def mech(self, op, a, b, got, want):
        ka, kb = ms.kind(a), ms.kind(b)
        if 'bool' in (ka, kb) and want == ('error', ms.NOMATCH) and got[0] == 'value':
            other = kb if ka == 'bool' else ka
            return 'bool-accepted-as-number:%s:%s' % (op, other if other != 'bool' else 'bool')
        if want == ('error', ms.NOMATCH) and got[0] == 'value':
            return 'unrelated-types-give-value:%s:%s,%s' % (op, ka, kb)
        return 'scalar-operator-differs-from-model:%s:%s,%s' % (op, ka, kb)

    def unary(self, op, a):
        rec = self.rec
        want = ms.unary(op, a)
        for form in ('var', 'lit'):
            if form == 'var':
                text = '%s $a' % op
                got = self.run(text, a=a)
            else:
                la = literal(a)
                if la is None:
                    continue
                text = '%s %s' % (op, la)
                got = self.run(text)
            rec.case((form, 'unary' + op, repr(a)))
            rec.count('checked.unary')
            self.cells.add(('unary' + op, ms.kind(a)))
            if not self.agree(got, want):
                if ms.kind(a) == 'bool' and got[0] == 'value' and want[0] == 'error':
                    mech = 'bool-accepted-as-number:unary%s' % op
                else:
                    mech = 'scalar-operator-differs-from-model:unary%s:%s' % (op, ms.kind(a))
                rec.violation(mech, '%s with a=%r gives %r, the model says %r' % (text, a, got, want),
                              {'op': op, 'a': a, 'form': form, 'arity': 1})

    # ---- law monitors over yaql's own outcomes (no model involved) -------
    def laws_pair(self, a, b):
        rec = self.rec
        o = {op: self.run('$a %s $b' % op, a=a, b=b) for op in ('<', '<=', '>', '>=', '=')}
        r = {op: self.run('$a %s $b' % op, a=b, b=a) for op in ('<', '>')}
        rec.count('laws.checked')
        rec.case(('laws', repr(a), repr(b)))

        def bad(law, detail):
            rec.violation('ordering-law-broken:%s:%s,%s' % (law, ms.kind(a), ms.kind(b)),
                          'a=%r b=%r: %s (outcomes %r, reversed %r)' % (a, b, detail, o, r),
                          {'law': law, 'a': a, 'b': b})
        if o['>'] != r['<']:
            bad('antisymmetry', 'a > b is %r but b < a is %r' % (o['>'], r['<']))
        if o['<'] != r['>']:
            bad('antisymmetry', 'a < b is %r but b > a is %r' % (o['<'], r['>']))
        if all(x[0] == 'value' for x in o.values()):
            lt, le, gt, ge, eq = (o[k][1] for k in ('<', '<=', '>', '>=', '='))
            if le != (lt or eq):
                bad('lte-is-lt-or-eq', 'a <= b is %r but a < b or a = b is %r' % (le, lt or eq))
            if ge != (gt or eq):
                bad('gte-is-gt-or-eq', 'a >= b is %r but a > b or a = b is %r' % (ge, gt or eq))
            same_family = (ms.is_num(a) and ms.is_num(b)) or (ms.kind(a) == 'str' and ms.kind(b) == 'str')
            if same_family and [lt, eq, gt].count(True) != 1:
                bad('trichotomy', 'exactly one of <, =, > must hold, got %r' % ([lt, eq, gt],))
            if a is None and b is not None and not (lt and not gt):
                bad('null-lowest', 'null must be below %r' % (b,))
        elif not all(x[0] == 'error' for x in (o['<'], o['<='], o['>'], o['>='])):
            bad('partial-ordering-family', 'some of the four ordering operators accept this pair and others do not')

    def law_divmod(self, a, b):
        rec = self.rec
        got = self.run('($a / $b) * $b + ($a mod $b)', a=a, b=b)
        rec.count('laws.checked')
        rec.case(('divmod', a, b))
        if b == 0:
            ok = got == ('error', 'ZeroDivisionError')
        else:
            ok = got[0] == 'value' and type(got[1]) is int and got[1] == a
            q = self.run('$a / $b', a=a, b=b)
            ok = ok and q[0] == 'value' and type(q[1]) is int
            if ok and b > 0:
                ok = q[1] * b <= a < (q[1] + 1) * b      # floor
            elif ok:
                ok = q[1] * b >= a > (q[1] + 1) * b
        if not ok:
            rec.violation('int-division-law-broken', 'a=%r b=%r: (a / b) * b + (a mod b) gives %r' % (a, b, got),
                          {'law': 'divmod', 'a': a, 'b': b})

    def law_triple(self, a, b, c):
        rec = self.rec
        rec.count('laws.checked')
        rec.case(('triple', repr(a), repr(b), repr(c)))
        ab = self.run('$a < $b', a=a, b=b)
        bc = self.run('$a < $b', a=b, b=c)
        ac = self.run('$a < $b', a=a, b=c)
        if ab == ('value', True) and bc == ('value', True) and ac != ('value', True):
            rec.violation('ordering-law-broken:transitivity', 'a=%r < b=%r < c=%r but a < c is %r' % (a, b, c, ac),
                          {'law': 'transitivity', 'a': a, 'b': b, 'c': c})
        if all(ms.kind(x) == 'int' for x in (a, b, c)):
            for text, law in (('($a + $b) + $c = $a + ($b + $c)', 'add-assoc'),
                              ('$a * ($b + $c) = $a * $b + $a * $c', 'distributive'),
                              ('($a * $b) * $c = $a * ($b * $c)', 'mul-assoc'),
                              ('$a - $b - $c = $a - ($b + $c)', 'sub-left-assoc')):
                got = self.run(text, a=a, b=b, c=c)
                if got != ('value', True):
                    rec.violation('integer-ring-law-broken:' + law, '%s with a=%r b=%r c=%r gives %r' % (text, a, b, c, got),
                                  {'law': law, 'a': a, 'b': b, 'c': c})


def huge_ints(mon, rec):
    """integers beyond CPython's int->str digit limit (4300 digits): arithmetic and ordering stay exact, nothing on the
    way (resolution, error messages, tracing) needs their decimal spelling"""
    a, b, c = 10 ** 5000 + 7, 10 ** 4500 - 3, 3

    def short(v):
        if isinstance(v, tuple):
            return tuple(short(x) for x in v)
        if isinstance(v, int) and not isinstance(v, bool) and abs(v) > 10 ** 50:
            return '<int of %d bits, mod 9973 = %d>' % (v.bit_length(), v % 9973)
        return v
    cases = [('$a * $b', a * b), ('$a + $b', a + b), ('$a - $b', a - b), ('- $a', -a), ('+ $a', a), ('$a / $c', a // c), ('$a mod $c', a % c),
             ('$a / $b', a // b), ('$a mod $b', a % b), ('$a < $b', False), ('$a > $b', True), ('$a <= $a', True), ('$a >= $b', True),
             ('$a = $a', True), ('$a != $b', True), ('$a = $b', False), ('$a * $c + 1', a * c + 1), ('($a / $b) * $b + ($a mod $b) = $a', True),
             ('$a * $a > $b * $b', True), ('$c - $a', c - a), ('$a in [$a]', True)]
    for text, want in cases:
        got = mon.run_in(None, text, a=a, b=b, c=c)
        rec.count('checked.binary')
        rec.count('checked.huge_int_cases')
        rec.case(('huge', text))
        ok = got[0] == 'value' and type(got[1]) is type(want) and got[1] == want
        if not ok:
            rec.violation('scalar-operator-differs-from-model:huge-int:%s' % text.replace(' ', ''),
                          '%s with a = 10**5000 + 7, b = 10**4500 - 3, c = 3 gives %r, exact integer arithmetic gives %r' % (
                              text, short(got), short(want)), {'op': text, 'a': 'huge', 'b': 'huge', 'form': 'huge', 'arity': 0})
    # unrelated operand kinds still give the resolution error, whatever the size of the number
    for text in ("$a + 'x'", "$a < 'x'", '$a * null', 'not $a + true'):
        got = mon.run_in(None, text, a=a, b=b, c=c)
        rec.count('checked.huge_int_cases')
        rec.case(('huge', text))
        if got != ('error', ms.NOMATCH):
            rec.violation('scalar-operator-differs-from-model:huge-int:error-class', '%s with a = 10**5000 + 7 gives %r, expected the '
                          "'no matching function' error" % (text, short(got)), {'op': text, 'a': 'huge', 'b': 'huge', 'form': 'huge', 'arity': 0})


def plan(tier, seed):
    vals = corpus(tier)
    n = len(vals)
    parts = 16
    shards = [{'name': 'pairs-%d' % p, 'kind': 'pairs', 'part': p, 'parts': parts, 'timeout': 3000} for p in range(parts)]
    shards.append({'name': 'unary-rep', 'kind': 'unary'})
    for p in range(4 if tier == 'quick' else 16):
        shards.append({'name': 'triples-%d' % p, 'kind': 'triples', 'count': 1500 if tier == 'quick' else 15000})
    return shards


def run_shard(spec, rec):
    mon = Mon(rec)
    try:
        vals = corpus(spec['tier'])
        if spec['kind'] == 'pairs':
            idx = -1
            for a, b in itertools.product(vals, repeat=2):
                idx += 1
                if idx % spec['parts'] != spec['part']:
                    continue
                for op in BIN_OPS:
                    if op == '*' and (ms.kind(a), ms.kind(b)) in (('str', 'int'), ('int', 'str')):
                        n = a if ms.kind(a) == 'int' else b
                        if abs(n) > 1000:
                            continue      # huge repetition counts: resource behaviour, not arithmetic
                    mon.binary(op, a, b, forms=('var', 'lit'))
                mon.laws_pair(a, b)
                if ms.kind(a) == 'int' and ms.kind(b) == 'int':
                    mon.law_divmod(a, b)
                if idx % 400 == 0:
                    rec.sample({'expr': '$a <= $b', 'a': a, 'b': b, 'outcome': mon.run('$a <= $b', a=a, b=b)})
        elif spec['kind'] == 'unary':
            huge_ints(mon, rec)
            for a in vals:
                for op in UN_OPS:
                    mon.unary(op, a)
            # repetition operators: strings and sequences by int / bool / others
            seqs = ['ab', '', [1, 2], [], (1,)]
            counts = [True, False, 0, 1, 2, 3, -1, None, 1.0, 2.5, '2']
            for s in seqs:
                for c in counts:
                    mon.binary('*', s, c)
                    mon.binary('*', c, s)
            for s in ('ab', [1, 2]):
                for other in ('ab', [1, 2]):
                    mon.binary('*', s, other)
            for v in (1, 'a', None, True, 1.0):
                for lst in ([1, 'a', None], [], [True], [1.0]):
                    mon.binary('in', v, lst)
            rec.sample({'expr': '$a * $b', 'a': 'ab', 'b': True, 'outcome': mon.run('$a * $b', a='ab', b=True)})
        else:
            rng = rng_for(spec['seed'], 'c15', spec['name'])
            nums = [v for v in vals if ms.is_num(v)]
            ints = [v for v in vals if ms.kind(v) == 'int']
            strs = [v for v in vals if ms.kind(v) == 'str']
            for i in range(spec['count']):
                r = rng.random()
                pool = ints if r < 0.4 else nums if r < 0.7 else strs if r < 0.85 else vals
                a, b, c = (rng.choice(pool) for _ in range(3))
                if rng.random() < 0.3:
                    a, b = rng.randrange(-10 ** 30, 10 ** 30), rng.randrange(-50, 50)
                    mon.law_divmod(a, b)
                mon.law_triple(a, b, c)
                if i % 500 == 0:
                    rec.sample({'triple': [a, b, c]})
    finally:
        mon.close()


def _val(v):
    if isinstance(v, dict):
        if '$int' in v:
            return int(v['$int'])
        if '$float' in v:
            return float(v['$float'])
        if '$str' in v:
            return ''.join(chr(c) for c in v['$str'])
    return v


def replay(data, rec):
    mon = Mon(rec)
    try:
        a, b, c = _val(data.get('a')), _val(data.get('b')), _val(data.get('c'))
        if 'law' in data:
            if data['law'] == 'divmod':
                mon.law_divmod(a, b)
            elif 'c' in data:
                mon.law_triple(a, b, c)
            else:
                mon.laws_pair(a, b)
        elif data['arity'] == 1:
            mon.unary(data['op'], a)
        else:
            mon.binary(data['op'], a, b, forms=(data['form'],))
    finally:
        mon.close()


def selftest():
    ms.selftest()
