"""C11 - arguments are evaluated once, in order; lazy ones only on demand.

Monitor: ordered trace written by a registered side-effecting probe
tick(id, value) placed in every operand position.  Oracles:
 (A) trace specification for every catalogue call: eager probes exactly once,
     left to right, before every lazy probe of the call;
 (B) exact traces predicted by a short-circuit model for and/or formulas, ?.,
     switch, switchCase, selectCase, coalesce, list/map constructors, rules;
 (C) per-element lambda application counts equal to those of the lazy
     reference models on the same finite input.
Static side monitor: parameters documented as lambdas are declared lazy.
"""
import re

import yaql
from yaql.language import runner as yrunner

from vmon import catalogue as cat
from vmon import hooks
from vmon import yq
from vmon.core import rng_for
from vmon.model import library as ml
from vmon.props import c14

RULE = ('a case is an expression in which every operand position holds a uniquely numbered tick() probe; distinct by '
        'expression text and operand values; non-trivial = at least two probes fired or an unselected operand existed')
ASSUMPTIONS = [
    'relative order of probes of different lazy pipeline stages is not judged (the statement fixes counts, not interleaving)',
    'comparator-based operators (orderBy/thenBy) apply their selector per comparison and are excluded from per-element counts',
    'laziness expectations of generic catalogue calls come from the docstrings (:argType ...: lambda) where present',
]
REQUIRED = {'generic.calls': 400, 'generic.keyword_order_calls': 100, 'generic.eager_probes': 500, 'generic.lazy_probes': 100, 'exact.cases': 1000,
            'exact.unselected_operands': 300, 'counts.cases': 300, 'counts.lambda_applications': 1000,
            'reach.choose_overload': 2000, 'candidates.max_per_call': 4, 'static.lambda_params': 30,
            'form.and-or': 200, 'form.switch': 100, 'form.switchCase': 50, 'form.selectCase': 50, 'form.coalesce': 50,
            'form.elvis': 50, 'form.map-literal': 30,
            'partial.cases': 1000, 'form.groupBy-aggregator': 100, 'form.generate': 100, 'form.splitWhere': 100}


class Mon:
    def __init__(self, rec):
        self.rec = rec
        self.eng = yq.engine({'yaql.limitIterators': 2000})
        root = yaql.create_context()
        self.overloads = cat.build(root)
        self.ctx = root.create_child_context()
        self.ticker = hooks.Ticker()
        self.ticker.register(self.ctx)
        self.reach = hooks.Reach()
        self.max_cands = 0
        self.reach.watch(yrunner.choose_overload, 'choose_overload', callback=self._cands)
        self.reach.start()

    def _cands(self, code):
        import sys
        f = sys._getframe(2)
        c = f.f_locals.get('candidates')
        if c:
            n = sum(len(level) for level in c)
            if n > self.max_cands:
                self.max_cands = n

    def close(self):
        self.rec.count('candidates.max_per_call', 0)
        self.rec.counters['candidates.max_per_call'] = max(self.rec.counters.get('candidates.max_per_call', 0), self.max_cands)
        self.reach.flush(self.rec)
        self.reach.stop()

    def run(self, text, vars_=None):
        # evaluation order and laziness are the same in every flavour of engine / context a host can set up
        if not hasattr(self, 'worlds'):
            from yaql import legacy as ylegacy
            dctx = yaql.create_context(delegates=True).create_child_context()
            lctx = ylegacy.create_context().create_child_context()
            self.ticker.register(dctx)
            self.ticker.register(lctx)
            self.worlds = [('default', self.eng, self.ctx), ('default', self.eng, self.ctx),
                           ('delegates', yq.engine({'yaql.limitIterators': 2000}, allow_delegates=True), dctx),
                           ('legacy-functions', self.eng, lctx)]
            self.turn = 0
        self.turn += 1
        wname, eng, base = self.worlds[self.turn % len(self.worlds)]
        if wname == 'legacy-functions' and ('=>' in text or '{' in text or 'switch' in text or 'dict(' in text or '.len()' in text):
            wname, eng, base = self.worlds[0]       # (`=>` builds tuples there, switch/dict/len are other functions)
        self.rec.count('world.' + wname)
        ctx = base.create_child_context()
        for k, v in (vars_ or {}).items():
            ctx[k] = cat.materialize(v) if isinstance(v, cat.Arg) else v
        self.ticker.reset()
        try:
            out = ('value', eng(text).evaluate(context=ctx))
        except Exception as e:
            out = ('error', type(e).__name__)
        return out, self.ticker.reset()


# ---- (A) generic catalogue calls -----------------------------------------------------------------

def doc_lazy_names(o):
    doc = o.fd.doc or ''
    return set(re.findall(r':argType\s+(\w+)\s*:\s*lambda', doc))


def generic(mon, rec, part, parts):
    idx = -1
    for o in mon.overloads:
        if o.syntax[0] in ('var', 'internal') or o.name in ('now', 'localtz'):
            continue
        idx += 1
        if idx % parts != part:
            continue
        documented_lazy = doc_lazy_names(o)
        allp = list(o.params) + [o.varargs] * 4 if o.varargs else list(o.params)
        # static side monitor: documented lambdas are declared lazy and the other way round
        if o.fd.doc and o.syntax[0] == 'call':
            for p in o.params:
                rec.count('static.lambda_params' if p.lazy else 'static.eager_params')
                if (p.name in documented_lazy) != (p.tclass == 'lambda') and p.tclass in ('lambda',) + (
                        () if p.name not in documented_lazy else (p.tclass,)):
                    rec.violation('laziness-declaration-differs-from-documentation:%s:%s' % (o.ident, p.name),
                                  '%s: parameter %s is %s but documented as %s' % (
                                      o.ident, p.name, 'lazy' if p.lazy else 'eager',
                                      'lambda' if p.name in documented_lazy else 'a value'), {'kind': 'static'})
        for choice in range(3):
            args = cat.basic_args(o, choice=choice)
            if args is None:
                continue
            wrapped = []
            kinds = []
            for i, a in enumerate(args):
                p = allp[i] if i < len(allp) else o.varargs
                k = i + 1
                if a.kind == 'text':
                    if p is not None and p.tclass in ('keyword', 'strconst', 'mappingrule', 'rulevalue'):
                        # rules: probe both sides; keywords / constants cannot carry a probe
                        if '=>' in a.text:
                            src, dst = a.text.split('=>', 1)
                            wrapped.append(cat.text('%s => tick(%d, %s)' % (src.strip(), k, dst.strip())))
                            kinds.append('lazy' if p.lazy else 'eager')
                        else:
                            wrapped.append(a)
                            kinds.append(None)
                    elif p is not None and p.tclass == 'expr':
                        wrapped.append(a)
                        kinds.append(None)
                    else:
                        wrapped.append(cat.text('tick(%d, %s)' % (k, a.text)))
                        kinds.append('lazy' if (p is not None and p.lazy) else 'eager')
                else:
                    wrapped.append(_TickVar(k, a))
                    kinds.append('lazy' if (p is not None and p.lazy) else 'eager')
            r = _render_ticked(o, wrapped)
            if r is None:
                continue
            text, vars_ = r
            out, trace = mon.run(text, vars_)
            rec.count('generic.calls')
            eager = [i + 1 for i, kd in enumerate(kinds) if kd == 'eager']
            lazy = [i + 1 for i, kd in enumerate(kinds) if kd == 'lazy']
            rec.count('generic.eager_probes', len(eager))
            rec.count('generic.lazy_probes', len(lazy))
            rec.case((text, tuple(a.label for a in vars_.values())), nontrivial=len(trace) >= 2 or bool(lazy))
            rp = {'kind': 'generic', 'ident': o.ident, 'choice': choice}
            resolved = out[0] == 'value' or out[1] not in ('NoMatchingFunctionException', 'NoMatchingMethodException',
                                                           'NoFunctionRegisteredException', 'NoMethodRegisteredException',
                                                           'AmbiguousFunctionException', 'AmbiguousMethodException',
                                                           'MappingTranslationException')
            for e in eager:
                n = trace.count(e)
                if n > 1 or (n == 0 and resolved and out[0] == 'value'):
                    rec.violation('eager-argument-evaluated-%s:%s' % ('more-than-once' if n > 1 else 'never', o.ident),
                                  '%s: eager argument probe %d fired %d time(s) (trace %r, outcome %r)' % (text, e, n, trace, out), rp)
            seen_eager = [t for t in trace if t in eager]
            if seen_eager != sorted(seen_eager):
                rec.violation('eager-arguments-out-of-order:%s' % o.ident, '%s: eager probes fired in order %r' % (text, seen_eager), rp)
            first_lazy = next((i for i, t in enumerate(trace) if t in lazy), None)
            if first_lazy is not None and any(t in eager for t in trace[first_lazy:]):
                rec.violation('lazy-argument-evaluated-before-eager:%s' % o.ident,
                              '%s: a lazy probe fired before an eager one (trace %r)' % (text, trace), rp)
        # the same call with its arguments passed by keyword, in declaration order and reversed: eager arguments are
        # evaluated in the order they are written, not in the order the callee declares them
        if o.syntax[0] == 'call' and not o.no_kwargs and not o.varargs:
            args = cat.basic_args(o)
            first_kw = 1 if not o.is_function else 0
            if args is not None and len(args) - first_kw >= 2 and all(
                    re.match(r'^[^\W\d]\w*$', p.name) for p in o.params[first_kw:len(args)]):
                for order in ('forward', 'reversed'):
                    idxs = list(range(first_kw, len(args)))
                    if order == 'reversed':
                        idxs.reverse()
                    vars_ = {}
                    kwparts = []
                    written = []       # (probe id, eager?)
                    k = 0

                    def spell(i):
                        nonlocal k
                        a = args[i]
                        k += 1
                        p = o.params[i]
                        if a.kind == 'text':
                            if p.tclass in ('keyword', 'strconst', 'expr', 'mappingrule', 'rulevalue'):
                                return a.text, None
                            return 'tick(%d, %s)' % (k, a.text), (k, not p.lazy)
                        vars_['w%d' % i] = a
                        return 'tick(%d, $w%d)' % (k, i), (k, not p.lazy)
                    recv = None
                    if first_kw:
                        recv, info = spell(0)
                        if info:
                            written.append(info)
                    for i in idxs:
                        t, info = spell(i)
                        kwparts.append('%s => %s' % (o.params[i].name, t))
                        if info:
                            written.append(info)
                    text = ('%s.%s(%s)' % (recv, o.name, ', '.join(kwparts))) if recv else '%s(%s)' % (o.name, ', '.join(kwparts))
                    out, trace = mon.run(text, vars_)
                    rec.count('generic.calls')
                    rec.count('generic.keyword_order_calls')
                    eager_ids = [i_ for i_, e in written if e]
                    rec.case((text, order), nontrivial=len(eager_ids) >= 2)
                    seen = [t for t in trace if t in eager_ids]
                    if out[0] == 'value' and seen != eager_ids:
                        rec.violation('eager-keyword-arguments-out-of-order:%s' % o.ident,
                                      '%s: eager probes fired in order %r, written order is %r' % (text, seen, eager_ids),
                                      {'kind': 'generic', 'ident': o.ident, 'choice': 0})
        if idx % 60 == 0:
            rec.sample({'kind': 'generic', 'text': text, 'trace': trace})


class _TickVar(cat.Arg):
    def __init__(self, k, inner):
        cat.Arg.__init__(self, 'var', value=inner.value, label=inner.label)
        self.k = k


def _render_ticked(o, args):
    """render with $vN wrapped as tick(k, $vN)"""
    r = cat.render(o, args)
    if r is None:
        return None
    text, vars_ = r
    for name, a in vars_.items():
        if isinstance(a, _TickVar):
            text = re.sub(r'\$%s\b' % name, 'tick(%d, $%s)' % (a.k, name), text)
    return text, vars_


# ---- (B) exact traces --------------------------------------------------------------------------------

class Formula:
    pass


def gen_formula(rng, depth, counter):
    """-> (text, eval(trace)->value)"""
    if depth <= 0 or rng.random() < 0.3:
        k = counter[0]
        counter[0] += 1
        v = rng.choice([True, False, 0, 1, None, 'a', ''])
        lit = {True: 'true', False: 'false', None: 'null'}.get(v, None) if not isinstance(v, (int, str)) or isinstance(v, bool) else None
        if lit is None:
            lit = repr(v) if isinstance(v, int) else "'%s'" % v

        def ev(trace, k=k, v=v):
            trace.append(k)
            return v
        return 'tick(%d, %s)' % (k, lit), ev
    op = rng.choice(['and', 'or', 'not'])
    if op == 'not':
        t, e = gen_formula(rng, depth - 1, counter)
        return 'not (%s)' % t, (lambda trace: not e(trace))
    t1, e1 = gen_formula(rng, depth - 1, counter)
    t2, e2 = gen_formula(rng, depth - 1, counter)
    if op == 'and':
        return '(%s and %s)' % (t1, t2), (lambda trace: e1(trace) and e2(trace))
    return '(%s or %s)' % (t1, t2), (lambda trace: e1(trace) or e2(trace))


RAISES = object()


class YObj:
    def combine(self, a, b=0, c=0, d=0):
        return [a, b, c, d]


from yaql import yaqlization as _yz  # noqa: E402
_yz.yaqlize(YObj)


def exact_cases(rng):
    """yields (form, text, vars, expected trace, expected value or NOCHECK, number of unselected operands)"""
    NO = object()
    # and/or formulas
    counter = [1]
    text, ev = gen_formula(rng, rng.choice((1, 2, 3, 4)), counter)
    tr = []
    val = ev(tr)
    yield 'and-or', text, {}, tr, val, (counter[0] - 1) - len(tr)
    # switch
    n = rng.choice((1, 2, 3, 4))
    conds = [rng.choice([True, False, False, 0, 1, None]) for _ in range(n)]
    parts = []
    tr = []
    val = None
    hit = False
    for i, c in enumerate(conds):
        parts.append('tick(%d, %s) => tick(%d, %d)' % (2 * i + 1, _lit(c), 2 * i + 2, 100 + i))
        if not hit:
            tr.append(2 * i + 1)
            if c:
                hit = True
                tr.append(2 * i + 2)
                val = 100 + i
    yield 'switch', 'switch(%s)' % ', '.join(parts), {}, tr, val, 2 * n - len(tr)
    # switchCase
    n = rng.choice((0, 1, 2, 3, 4))
    case = rng.choice([-1, -2, -3, -4, -5, -9, 0, 1, 2, 3, 4, 5])      # (any negative case selects the last operand)
    parts = ['tick(%d, %d)' % (i + 2, 200 + i) for i in range(n)]
    sel = case if 0 <= case < n else (n - 1 if n else None)
    tr = [1] + ([sel + 2] if sel is not None else [])
    yield 'switchCase', 'tick(1, %d).switchCase(%s)' % (case, ', '.join(parts)) if case >= 0 else 'tick(1, (%d)).switchCase(%s)' % (
        case, ', '.join(parts)), {}, tr, (200 + sel if sel is not None else None), n - (1 if sel is not None else 0)
    # selectCase
    n = rng.choice((0, 1, 2, 3, 4))
    conds = [rng.choice([True, False, False, 0, 'x']) for _ in range(n)]
    tr = []
    val = n
    for i, c in enumerate(conds):
        tr.append(i + 1)
        if c:
            val = i
            break
    yield 'selectCase', 'selectCase(%s)' % ', '.join('tick(%d, %s)' % (i + 1, _lit(c)) for i, c in enumerate(conds)), {}, tr, val, n - len(tr)
    # coalesce
    n = rng.choice((0, 1, 2, 3, 4))
    vals = [rng.choice([None, None, 0, False, 'v', 3]) for _ in range(n)]
    tr = []
    val = None
    for i, v in enumerate(vals):
        tr.append(i + 1)
        if v is not None:
            val = v
            break
    yield 'coalesce', 'coalesce(%s)' % ', '.join('tick(%d, %s)' % (i + 1, _lit(v)) for i, v in enumerate(vals)), {}, tr, val, n - len(tr)
    # elvis
    recv = rng.choice([None, 'abc', 'xy'])
    tr = [1] + ([2, 3] if recv is not None else [])
    yield 'elvis', 'tick(1, %s)?.substring(tick(2, 1), tick(3, 1))' % _lit(recv), {}, tr, (recv[1:2] if recv else None), (0 if recv else 2)
    yield 'elvis-chain', 'tick(1, %s)?.toUpper()?.substring(tick(2, 0))' % _lit(recv), {}, [1] + ([2] if recv else []), (
        recv.upper() if recv else None), (0 if recv else 1)
    # constructors: left to right, source before destination
    yield 'map-literal', '{tick(1, a) => tick(2, 1), tick(3, b) => tick(4, 2)}', {}, [1, 2, 3, 4], {'a': 1, 'b': 2}, 0
    yield 'list-literal', '[tick(1, 1), [tick(2, 2), tick(3, 3)], tick(4, 4)]', {}, [1, 2, 3, 4], [1, [2, 3], 4], 0
    yield 'dict-func', 'dict(tick(1, a) => tick(2, 1), tick(3, b) => tick(4, 2))', {}, [1, 2, 3, 4], {'a': 1, 'b': 2}, 0
    yield 'dict-set-rules', '{}.set(tick(1, a) => tick(2, 1), tick(3, b) => tick(4, 2))', {}, [1, 2, 3, 4], {'a': 1, 'b': 2}, 0
    yield 'operators', 'tick(1, 1) + tick(2, 2) * tick(3, 3) - tick(4, 4)', {}, [1, 2, 3, 4], 3, 0
    yield 'nested-calls', 'max(tick(1, 1), min(tick(2, 5), tick(3, 3)))', {}, [1, 2, 3], 3, 0
    yield 'index', '[10, 20, 30][tick(1, 1)] + {k => 5}[tick(2, k)]', {}, [1, 2], 25, 0
    yield 'keyword-args', "'a,b'.split(maxSplits => tick(1, 1), separator => tick(2, ','))", {}, [1, 2], ['a', 'b'], 0
    yield 'let', 'let(tick(1, 1), x => tick(2, 2)) -> tick(3, $1 + $x)', {}, [1, 2, 3], 3, 0
    yield 'examine', 'examine(tick(1, 0), tick(2, 1)).toList()', {}, [1, 2], [False, True], 0
    yield 'selectAllCases', 'selectAllCases(tick(1, false), tick(2, true), tick(3, 1)).toList()', {}, [1, 2, 3], [1, 2], 0
    yield 'selectAllCases-lazy', 'selectAllCases(tick(1, false), tick(2, true), tick(3, 1)).first()', {}, [1, 2], 1, 1
    yield 'assert', '5.assert(tick(1, $ > 1), tick(2, \'msg\'))', {}, [2, 1], 5, 0
    yield 'def', 'def(f, tick(1, $ + 1)) -> [f(tick(2, 1)), f(tick(3, 2))]', {}, [2, 1, 3, 1], [2, 3], 0
    # a method of a yaqlized host object: arguments left to right, positional and keyword alike
    yield 'yaqlized-method', '$obj.combine(tick(1, 1), tick(2, 2), c => tick(3, 3), d => tick(4, 4))', {'obj': YObj()}, [1, 2, 3, 4], [1, 2, 3, 4], 0
    yield 'yaqlized-method-kw-first', '$obj.combine(tick(1, 1), d => tick(2, 4), c => tick(3, 3))', {'obj': YObj()}, [1, 2, 3], [1, 0, 3, 4], 0
    yield 'yaqlized-method-receiver', 'tick(1, $obj).combine(tick(2, 5))', {'obj': YObj()}, [1, 2], [5, 0, 0, 0], 0
    # the selected operand fails: the failure is the outcome, no other operand is evaluated in its place
    kind = rng.choice(('index', 'zero', 'key', 'nomatch'))

    def R(k):
        return {'index': '[tick(%d, 7)][1]', 'zero': '(tick(%d, 1) / 0)', 'key': "{a => tick(%d, 1)}['b']",
                'nomatch': '(tick(%d, 1) + [])'}[kind] % k
    yield 'raise-switchCase', 'tick(1, 0).switchCase(%s, tick(3, 9))' % R(2), {}, [1, 2], RAISES, 1
    yield 'raise-switchCase-last', 'tick(1, 5).switchCase(tick(2, 9), %s)' % R(3), {}, [1, 3], RAISES, 1
    yield 'raise-switch', 'switch(tick(1, true) => %s, tick(3, true) => tick(4, 1))' % R(2), {}, [1, 2], RAISES, 2
    yield 'raise-switch-condition', 'switch(%s => tick(2, 1), tick(3, true) => tick(4, 1))' % R(1), {}, [1], RAISES, 3
    yield 'raise-coalesce', 'coalesce(tick(1, null), %s, tick(3, 1))' % R(2), {}, [1, 2], RAISES, 1
    yield 'raise-selectCase', 'selectCase(tick(1, false), %s, tick(3, true))' % R(2), {}, [1, 2], RAISES, 1
    yield 'raise-and', 'tick(1, true) and %s and tick(3, true)' % R(2), {}, [1, 2], RAISES, 1
    yield 'raise-or', 'tick(1, false) or %s or tick(3, true)' % R(2), {}, [1, 2], RAISES, 1
    yield 'raise-elvis', "tick(1, 'a')?.substring(%s, tick(3, 1))" % R(2), {}, [1, 2], RAISES, 1
    yield 'raise-selectAllCases', 'selectAllCases(tick(1, true), %s, tick(3, true)).toList()' % R(2), {}, [1, 2], RAISES, 1


def _lit(v):
    if v is None:
        return 'null'
    if v is True:
        return 'true'
    if v is False:
        return 'false'
    if isinstance(v, int):
        return str(v)
    return "'%s'" % v


class LegacyWorld:
    """the legacy function set (yaql.legacy.create_context) under the legacy and the current engine"""

    def __init__(self):
        from yaql import legacy as ylegacy
        self.engines = [('legacy-engine', ylegacy.YaqlFactory().create()), ('current-engine', yq.engine())]
        self.ctx = ylegacy.create_context()
        self.ticker = hooks.Ticker()
        self.ticker.register(self.ctx)

    def run(self, eng, text):
        self.ticker.reset()
        try:
            out = ('value', eng(text).evaluate(context=self.ctx.create_child_context()))
        except Exception as e:
            out = ('error', type(e).__name__)
        return out, self.ticker.reset()


def legacy_cases(rng):
    """legacy switch: `cond => value` pairs are tried in order; the pairs after the selected one are not evaluated
    (the order of condition and value inside one pair is not fixed by the documentation and not judged)"""
    n = rng.choice((1, 2, 3, 4))
    sel = rng.choice(list(range(n)) + [None])
    recv = True       # switch is an extension method: in function form its first argument is the value
    parts = []
    fired = [1] if recv else []
    for i in range(n):
        c, v = 2 * i + 2, 2 * i + 3
        cond = 'true' if i == sel else rng.choice(('false', 'null', '0 > 1'))
        if recv and i == sel:
            cond = '$ > 1'
        parts.append('tick(%d, %s) => tick(%d, %d)' % (c, cond, v, 100 + i))
        if sel is None or i <= sel:
            fired += [c, v]
    text = ('tick(1, 5).switch(%s)' if recv else 'switch(%s)') % ', '.join(parts)
    yield 'legacy-switch', text, sorted(fired), (100 + sel if sel is not None else None), 2 * n + (1 if recv else 0) - len(fired)
    if sel is not None and sel < n - 1:
        # a later pair that would fail is never reached
        bad = parts[:sel + 1] + ['tick(90, 1 / 0 > 5) => tick(91, 7)']
        text = ('tick(1, 5).switch(%s)' if recv else 'switch(%s)') % ', '.join(bad)
        yield 'legacy-switch-later-pair-fails', text, sorted([f for f in fired]), 100 + sel, 2


def exact(mon, rec, rng, count):
    legacy = LegacyWorld()
    for i in range(count):
        for form, text, want_sorted, want_val, unselected in legacy_cases(rng):
            for ename, eng in legacy.engines:
                out, trace = legacy.run(eng, text)
                rec.count('exact.cases')
                rec.count('form.' + form)
                rec.count('exact.unselected_operands', unselected)
                rec.case((text, ename), nontrivial=True)
                rp = {'kind': 'legacy', 'form': form, 'text': text, 'engine': ename}
                if sorted(trace) != want_sorted:
                    extra = [t for t in trace if t not in want_sorted]
                    mech = 'unselected-operand-evaluated:%s' % form if extra else 'evaluation-trace-differs:%s' % form
                    rec.violation(mech, '%s (legacy functions, %s): probes fired %r, expected (in any order inside a pair) %r (outcome %r)' % (
                        text, ename, trace, want_sorted, out), rp)
                elif out != ('value', want_val):
                    rec.violation('value-differs:%s' % form, '%s (legacy functions, %s) gave %r, expected %r' % (text, ename, out, want_val), rp)
    for i in range(count):
        for form, text, vars_, want_trace, want_val, unselected in exact_cases(rng):
            out, trace = mon.run(text, vars_)
            rec.count('exact.cases')
            rec.count('form.' + form)
            rec.count('exact.unselected_operands', unselected)
            rec.case((text,), nontrivial=len(want_trace) >= 2 or unselected > 0)
            rp = {'kind': 'exact', 'form': form, 'text': text}
            if trace != want_trace:
                extra = [t for t in trace if t not in want_trace]
                mech = 'unselected-operand-evaluated:%s' % form if extra else 'evaluation-trace-differs:%s' % form
                rec.violation(mech, '%s: probes fired %r, the evaluation-order model predicts %r (outcome %r)' % (
                    text, trace, want_trace, out), rp)
            elif want_val is RAISES:
                if out[0] != 'error':
                    rec.violation('value-differs:%s' % form, '%s gave %r although the selected operand raises' % (text, out), rp)
            elif out != ('value', want_val) and not (out[0] == 'value' and out[1] == want_val):
                rec.violation('value-differs:%s' % form, '%s gave %r, expected %r' % (text, out, want_val), rp)
        if i % 100 == 0:
            rec.sample({'kind': 'exact', 'text': text, 'trace': trace})


# ---- (C) per-element counts ------------------------------------------------------------------------------

def counts(mon, rec, rng, count):
    for i in range(count):
        text, model, terminal, names = c14.build_case(rng)
        n = rng.choice((0, 1, 3, 6, 10))
        data = tuple(rng.randrange(0, 12) for _ in range(n))
        # the c14 builder writes every lambda as tick(id, body); run the model on the same finite input
        try:
            m, lams = model(iter(list(data)))
            if terminal:
                mval = m()
            else:
                mval = list(m)
        except Exception:
            continue
        want = {}
        for j, l in enumerate(lams):
            want[j + 1] = l.calls
        out, trace = mon.run(text.replace('$src', '$data', 1) + ('' if terminal else '.toList()'), {'data': data})
        rec.count('counts.cases')
        rec.count('counts.lambda_applications', len(trace))
        rec.case((text, data), nontrivial=len(trace) >= 2)
        if out[0] != 'value':
            continue
        got = {k: trace.count(k) for k in want}
        if got != want:
            rec.violation('per-element-lambda-count-differs:%s' % '+'.join(sorted(set(names)))[:60],
                          '%s over %r: lambda applications %r, the lazy model needs %r' % (text, data, got, want),
                          {'kind': 'counts', 'text': text, 'data': list(data)})
        if i % 100 == 0:
            rec.sample({'kind': 'counts', 'text': text, 'data': list(data), 'applications': got})


# ---- (D) lazily produced results of grouping / generating / splitting functions, partly consumed --------

def partial_cases(rng):
    """yields (form, text, data, {probe id: (at least, at most)}): application-count bounds of each
    lambda when only K results of a lazily produced result are consumed (one application of
    read-ahead slack, as in C14)"""
    n = rng.choice((0, 1, 2, 3, 5, 8, 12))
    data = [rng.randrange(0, 12) for _ in range(n)]
    K = rng.choice((0, 1, 1, 2, 3, 5))
    sink = rng.choice(('.take(%d).toList()' % K, '.take(%d).len()' % K, '.limit(%d).select($).toList()' % K))
    mod = rng.choice((2, 3, 5))
    G = len({x % mod for x in data})
    use = min(K, G)
    yield ('groupBy-aggregator', '$data.groupBy(tick(1, $ mod %d), tick(2, $ * 2), tick(3, $.len()))%s' % (mod, sink), data,
           {1: (n, n), 2: (n, n), 3: (use, min(use + 1, G))})
    yield ('groupBy-aggregator-kw', '$data.groupBy(tick(1, $ mod %d), aggregator => tick(3, $.len()))%s' % (mod, sink), data,
           {1: (n, n), 3: (use, min(use + 1, G))})
    if G:
        yield ('groupBy-aggregator-first', '$data.groupBy(tick(1, $ mod %d), tick(2, $), tick(3, $.sum())).first()' % mod, data,
               {1: (n, n), 2: (n, n), 3: (1, min(2, G))})
    yield ('groupBy-aggregator-unused', 'let(g => $data.groupBy(tick(1, $ mod %d), tick(2, $), tick(3, $.sum()))) -> 7' % mod, data,
           {1: (n, n), 2: (n, n), 3: (0, 0)})
    yield ('groupBy-aggregator-whole', '$data.groupBy(tick(1, $ mod %d), tick(2, $), tick(3, $.sum())).toList()' % mod, data,
           {1: (n, n), 2: (n, n), 3: (G, G)})
    # generate(initial, predicate, producer, selector): x, f(x), f(f(x)), ... while predicate
    N = rng.choice((0, 1, 3, 6, 1000000))
    avail = N
    use = min(K, avail)
    yield ('generate', 'generate(0, tick(1, $ < %d), tick(2, $ + 1), tick(3, $ * 2))%s' % (N, sink), data,
           {1: (use, min(use + 1, avail + 1)), 2: (max(use - 1, 0), use + 1), 3: (use, use + 1)})
    yield ('generateMany', 'generateMany(1, tick(1, [$ * 2, $ * 2 + 1]), tick(2, -$))%s' % sink, data,
           {1: (max(K - 1, 0), K + 1), 2: (K, K + 1)})
    # splitWhere / sliceWhere produce their chunks lazily from the source
    thr = rng.choice((0, 3, 6, 100))
    flags = [x >= thr for x in data]
    def upto_chunks(k, flags=flags):
        # predicate applications needed to complete k chunks of splitWhere (a chunk ends at a true)
        done = 0
        for i, f in enumerate(flags):
            if done >= k:
                return i
            if f:
                done += 1
        return len(flags)
    need = upto_chunks(K)
    yield ('splitWhere', '$data.splitWhere(tick(1, $ >= %d))%s' % (thr, sink), data,
           {1: (min(need, n), min(upto_chunks(K + 1) + 1, n))})
    yield ('sliceWhere-whole', '$data.sliceWhere(tick(1, $ >= %d)).toList()' % thr, data, {1: (n, n)})
    yield ('splitWhere-whole', '$data.splitWhere(tick(1, $ >= %d)).toList()' % thr, data, {1: (n, n)})
    yield ('distinct-key-whole', '$data.distinct(tick(1, $ mod 3)).toList()', data, {1: (n, n)})
    yield ('toDict-whole', '$data.toDict(tick(1, $), tick(2, $ + 1)).len()', data, {1: (n, n), 2: (n, n)})
    yield ('takeWhile-whole', '$data.takeWhile(tick(1, true)).toList()', data, {1: (n, n)})
    # regex matches are produced on demand: the selector runs for the matches consumed
    hay = "$data.select(str($)).join(' ')"
    yield ('searchAll-selector-partial', "regex('[0-9]+').searchAll(%s, tick(1, $.value))%s" % (hay, sink), data,
           {1: (min(K, n), min(K + 1, n))})
    yield ('searchAll-selector-method-partial', "%s.searchAll(regex('[0-9]+'), tick(1, int($.value)))%s" % (hay, sink), data,
           {1: (min(K, n), min(K + 1, n))})
    yield ('searchAll-selector-whole', "regex('[0-9]+').searchAll(%s, tick(1, $.value)).toList()" % hay, data, {1: (n, n)})
    if n:
        yield ('searchAll-selector-first', "regex('[0-9]+').searchAll(%s, tick(1, $.value)).first()" % hay, data, {1: (1, min(2, n))})
        yield ('searchAll-selector-any', "regex('[0-9]+').searchAll(%s, tick(1, $.value)).any(true)" % hay, data, {1: (1, min(2, n))})
    yield ('selectAllCases-partial', 'selectAllCases(%s)%s' % (', '.join('tick(%d, %s)' % (i + 1, 'true' if f else 'false')
                                                                        for i, f in enumerate(flags)), sink), data,
           {i + 1: (1 if sum(flags[:i]) < K else 0, 1 if sum(flags[:i]) < K + 1 else 0) for i in range(n)})


def partial(mon, rec, rng, count):
    for i in range(count):
        for form, text, data, bounds in partial_cases(rng):
            out, trace = mon.run(text, {'data': tuple(data)})
            rec.count('partial.cases')
            rec.count('form.' + form)
            rec.case((text, tuple(data)), nontrivial=bool(bounds) and len(data) > 0)
            if out[0] != 'value':
                rec.count('partial.errors')
                continue
            got = {k: trace.count(k) for k in bounds}
            over = {k: (got[k], hi) for k, (lo, hi) in bounds.items() if got[k] > hi}
            under = {k: (got[k], lo) for k, (lo, hi) in bounds.items() if got[k] < lo}
            rp = {'kind': 'partial', 'text': text, 'data': list(data)}
            if over:
                rec.violation('lazy-lambda-overapplied:%s' % form,
                              '%s over %r: lambda applications %r, at most %r are required by what was consumed' % (
                                  text, data, got, {k: hi for k, (lo, hi) in bounds.items()}), rp)
            elif under:
                rec.violation('lambda-underapplied:%s' % form,
                              '%s over %r: lambda applications %r, at least %r are required' % (
                                  text, data, got, {k: lo for k, (lo, hi) in bounds.items()}), rp)
            rec.count('partial.lambda_applications', len(trace))
        if i % 100 == 0:
            rec.sample({'kind': 'partial', 'text': text, 'data': list(data), 'applications': got if out[0] == 'value' else None})


def plan(tier, seed):
    thorough = tier == 'thorough'
    shards = [{'name': 'generic-%d' % p, 'kind': 'generic', 'part': p, 'parts': 4} for p in range(4)]
    for p in range(8 if thorough else 2):
        shards.append({'name': 'exact-%d' % p, 'kind': 'exact', 'count': 2500 if thorough else 200})
    for p in range(8 if thorough else 2):
        shards.append({'name': 'counts-%d' % p, 'kind': 'counts', 'count': 8000 if thorough else 400})
    for p in range(4 if thorough else 1):
        shards.append({'name': 'partial-%d' % p, 'kind': 'partial', 'count': 3000 if thorough else 300})
    return shards


def run_shard(spec, rec):
    mon = Mon(rec)
    try:
        rng = rng_for(spec['seed'], 'c11', spec['name'])
        if spec['kind'] == 'generic':
            generic(mon, rec, spec['part'], spec['parts'])
        elif spec['kind'] == 'exact':
            exact(mon, rec, rng, spec['count'])
        elif spec['kind'] == 'partial':
            partial(mon, rec, rng, spec['count'])
        else:
            counts(mon, rec, rng, spec['count'])
    finally:
        mon.close()


def replay(data, rec):
    mon = Mon(rec)
    try:
        if data['kind'] == 'legacy':
            lw = LegacyWorld()
            for ename, eng in lw.engines:
                print(ename, data['text'], '->', lw.run(eng, data['text']))
        elif data['kind'] == 'exact':
            out, trace = mon.run(data['text'])
            print('%s -> %r, probes fired %r' % (data['text'], out, trace))
            print('(expected trace is regenerated only by re-running the check)')
        elif data['kind'] == 'partial':
            out, trace = mon.run(data['text'], {'data': tuple(data['data'])})
            print('%r over %r -> %r, applications %r' % (data['text'], data['data'], out, {k: trace.count(k) for k in sorted(set(trace))}))
        elif data['kind'] == 'counts':
            out, trace = mon.run(data['text'].replace('$src', '$data', 1) + '.toList()', {'data': tuple(data['data'])})
            print('%r -> %r, applications %r' % (data['text'], out, {k: trace.count(k) for k in set(trace)}))
        else:
            generic(mon, rec, 0, 1)
            rec.violations = [v for v in rec.violations if v['replay'].get('ident') == data.get('ident')][:3]
    finally:
        mon.close()
