"""C12 - all ways of passing the same arguments are equivalent.

Metamorphic oracle: for every catalogue overload and argument tuple, every
spelling (positional / keyword split points, omitted or skipped defaults,
explicit defaults, call(name, args, kwargs), function vs method form) must give
the same finalised result or the same exception class.  Kind monitor: method-
only names are never callable as functions and vice versa.  Static side
monitor: explicitly aliased parameters are documented under their alias.
"""
import re

import yaql
from yaql.language import exceptions as yexc
from yaql.language import runner as yrunner
from yaql.language import specs as yspecs
from yaql.language import utils as yutils
from yaql.standard_library import system as ysystem

from vmon import catalogue as cat
from vmon import hooks
from vmon import yq
from vmon.core import rng_for

RULE = ('a case is (overload, argument tuple, spelling); distinct by the rendered expression text plus the argument '
        'labels; non-trivial = the group of spellings of one call has at least two members and at least one of them '
        'reached the payload')
ASSUMPTIONS = [
    'keyword names are the names the definition publishes (convention-translated python name, or the explicit alias)',
    'explicit defaults are only spelled for eagerly evaluated parameters; nondeterministic functions are excluded',
    'trailing empty argument slots are not generated (the grammar has none)',
]
REQUIRED = {'convention.python_shards': 1, 'groups': 300, 'spellings': 1500, 'spelling.keyword': 300, 'spelling.omitted-defaults': 100,
            'spelling.skipped-slot': 20, 'spelling.call()': 100, 'spelling.method-vs-function': 50,
            'kind.checked': 100, 'family.groups': 100, 'reach.map_args': 1000, 'reach.get_delegate': 1000, 'reach.translate_args': 1000,
            'pr.system.call_func': 100, 'pr.*': 150}

NONDET = ('now', 'localtz')
OMIT = 'omit'


def literal_default(v):
    return v is None or isinstance(v, (bool, int, str, float))


class Mon:
    def __init__(self, rec, python_convention=False):
        self.rec = rec
        self.eng = yq.engine({'yaql.limitIterators': 500, 'yaql.memoryQuota': 5000000})
        if python_convention:
            # the library under the python naming convention: snake_case function and keyword names, still with the
            # trailing underscores of the host-language spelling stripped
            from yaql.language import conventions as yconv
            self.ctx = yaql.create_context(convention=yconv.PythonConvention())
        else:
            self.ctx = yaql.create_context()
        self.overloads = cat.build(self.ctx)
        self.family_ctx = None
        self.seen_invalid = set()
        counts = {}
        for o in self.overloads:
            counts[o.name] = counts.get(o.name, 0) + 1
        for o in self.overloads:
            # ill-typed tuples are only meaningful where no other overload of the name can pick them up
            o.single_name = counts[o.name] == 1
            # keyword names computed independently of what yaql published: explicit alias of the decorator,
            # else the naming convention (trailing underscores stripped, snake_case -> camelCase)
            orig = getattr(o.payload, '__yaql_function__', None)
            for prm in o.params + o.kwonly:
                explicit = None
                if orig is not None and prm.key in orig.parameters:
                    explicit = orig.parameters[prm.key].alias
                prm.kwname = explicit or (prm.pyname.rstrip('_') if python_convention else camel(prm.pyname))
        # enumeration order of the overloads of one layer: the real set order, or forced (ascending / descending by
        # payload name) so that every candidate of a multi-overload name gets to be tried first
        from yaql.language import contexts as yctx
        self.order = None
        self.patches = hooks.Patches()
        orig_gf = yctx.Context.get_functions
        mon = self

        def get_functions(ctx_self, name, predicate=None, use_convention=False):
            fds, excl = orig_gf(ctx_self, name, predicate, use_convention)
            if mon.order is None or len(fds) < 2:
                return fds, excl
            ordered = sorted(fds, key=lambda fd: (getattr(fd.payload, '__module__', ''), getattr(fd.payload, '__qualname__', '')),
                             reverse=bool(mon.order))
            return ordered, excl
        self.patches.set(yctx.Context, 'get_functions', get_functions)
        self.reach = hooks.Reach()
        self.reach.watch(yspecs.FunctionDefinition.map_args, 'map_args')
        self.reach.watch(yspecs.FunctionDefinition.get_delegate, 'get_delegate')
        self.reach.watch(yrunner.translate_args, 'translate_args')
        for o in self.overloads:
            self.reach.watch(o.code_owner, 'payload.' + o.code_owner.__module__.split('.')[-1] + '.' + o.code_owner.__name__)
        self.reach.start()

    def close(self):
        for k in list(self.reach.counts):
            if k.startswith('payload.'):
                if self.reach.counts[k]:
                    self.rec.count('pr.' + k[len('payload.'):], self.reach.counts[k])
                del self.reach.counts[k]
        self.reach.flush(self.rec)
        self.reach.stop()
        self.patches.restore()

    def payload_calls(self):
        return sum(v for k, v in self.reach.counts.items() if k.startswith('payload.'))

    def run(self, text, vars_):
        try:
            st = self.eng(text)
        except Exception as e:
            return ('parse-error', type(e).__name__, str(e)[:80])
        ctx = (self.family_ctx or self.ctx).create_child_context()
        for k, a in vars_.items():
            ctx[k] = cat.materialize(a)
        try:
            return ('value', st.evaluate(context=ctx))
        except Exception as e:
            # function and method flavours of one resolution error are one error class for this property
            name = type(e).__name__
            if isinstance(e, yexc.ResolutionError):
                name = name.replace('Function', '').replace('Method', '')
            return ('exc', name)


def camel(pyname):
    """documented convention: strip trailing underscores, snake_case -> camelCase"""
    name = pyname.rstrip('_')
    head, *rest = name.split('_')
    return head + ''.join(w[:1].upper() + w[1:] for w in rest)


def same(a, b):
    if a[0] != b[0]:
        return False
    if a[0] == 'exc':
        return a[1] == b[1]
    if a[0] == 'parse-error':
        return True
    return deep_same(a[1], b[1])


def deep_same(x, y):
    if type(x) is not type(y):
        return False
    if isinstance(x, dict):
        return len(x) == len(y) and all(k in y and deep_same(v, y[k]) for k, v in x.items())
    if isinstance(x, (list, tuple)):
        return len(x) == len(y) and all(deep_same(p, q) for p, q in zip(x, y))
    if isinstance(x, float):
        return repr(x) == repr(y)
    if isinstance(x, (set, frozenset)):
        return x == y
    if type(x).__repr__ is object.__repr__:
        return True          # identity-only objects (contexts): same type is all that can be compared
    try:
        return x == y
    except Exception:
        return repr(x) == repr(y)


def spellings(o, states, extra, form):
    """states: per positional param an Arg, or (Arg, 'is-default') for an explicit default, or OMIT.
    extra: varargs Args.  form: 'function' | 'method'.  yields (label, text, vars)"""
    n = len(o.params)
    start = 1 if form == 'method' else 0
    if form == 'method' and (n == 0 and not extra):
        return
    seen = set()
    for omit_defaults in (False, True):
        st = []
        for s in states:
            if isinstance(s, tuple):
                st.append(OMIT if omit_defaults else s[0])
            else:
                st.append(s)
        explicit_idx = [i for i, s in enumerate(st) if s is not OMIT]
        splits = range(start, n + 1) if not extra else [n]
        for k in splits:
            if o.no_kwargs and k < n and any(st[i] is not OMIT for i in range(k, n)):
                continue
            pos = []
            last_pos_explicit = max([i for i in explicit_idx if i < k], default=-1)
            skipped = False
            for i in range(min(k, last_pos_explicit + 1)):
                if st[i] is OMIT:
                    pos.append(cat.SKIP)
                    skipped = True
                else:
                    pos.append(st[i])
            kw = {}
            for i in range(k, n):
                if st[i] is not OMIT:
                    kw[o.params[i].kwname] = st[i]
            # params in [last_pos_explicit+1, k) that are OMIT are simply trailing-omitted
            if any(st[i] is not OMIT and i >= len(pos) and i < k for i in range(n)):
                continue
            pos = pos + list(extra)
            if form == 'method' and (not pos or pos[0] is cat.SKIP):
                continue
            r = cat.render(o, pos, kw, form=form)
            if r is None:
                continue
            text, vars_ = r
            if text in seen:
                continue
            seen.add(text)
            labels = []
            if kw:
                labels.append('keyword')
            if skipped:
                labels.append('skipped-slot')
            if omit_defaults and any(isinstance(s, tuple) for s in states):
                labels.append('omitted-defaults')
            if any(s is OMIT for s in states) and not omit_defaults:
                labels.append('omitted-defaults')
            if not labels:
                labels.append('positional')
            yield labels, text, vars_
        # call(name, args, kwargs): all explicit args must be values
        if o.syntax[0] == 'call':
            vals = [s for s in st if s is not OMIT] + list(extra)
            lazy_given = any(st[i] is not OMIT and o.params[i].lazy for i in range(n)) or (
                bool(extra) and o.varargs is not None and o.varargs.lazy)
            if all(a.kind == 'var' for a in vals) and not lazy_given:
                lastpos = max(explicit_idx, default=-1)
                if all(st[i] is not OMIT for i in range(lastpos + 1)):
                    vars_ = {}

                    def sp(a):
                        name = 'c%d' % len(vars_)
                        vars_[name] = a
                        return '$' + name
                    args_pos = [st[i] for i in range(lastpos + 1)] + list(extra)
                    if form == 'method':
                        if not args_pos:
                            continue
                        recv = sp(args_pos[0])
                        text = 'call(%s, [%s], {}, %s)' % (o.name, ', '.join(sp(a) for a in args_pos[1:]), recv)
                    else:
                        text = 'call(%s, [%s], {})' % (o.name, ', '.join(sp(a) for a in args_pos))
                    if text not in seen:
                        seen.add(text)
                        yield ['call()'], text, vars_
                # keyword arguments through the kwargs mapping
                k = start
                if not extra and not o.no_kwargs and all(st[i] is not OMIT for i in range(k)) and n > k:
                    vars_ = {}

                    def sp2(a):
                        name = 'c%d' % len(vars_)
                        vars_[name] = a
                        return '$' + name
                    kwtext = ', '.join('%s => %s' % (o.params[i].kwname, sp2(st[i])) for i in range(k, n) if st[i] is not OMIT)
                    if form == 'method':
                        text = 'call(%s, [], {%s}, %s)' % (o.name, kwtext, sp2(st[0]))
                    else:
                        text = 'call(%s, [], {%s})' % (o.name, kwtext)
                    if text not in seen and all(re.match(r'^[^\W\d]\w*$', o.params[i].kwname) for i in range(k, n)):
                        seen.add(text)
                        yield ['call()', 'keyword'], text, vars_


def arg_tuples(o, rng, count):
    """argument state tuples for one overload"""
    out = []
    for c in range(count):
        states = []
        ok = True
        for p in o.params:
            cands = cat.candidates(o, p)
            if not cands:
                ok = False
                break
            if p.has_default:
                r = rng.random()
                if p.lazy:
                    states.append(OMIT if r < 0.5 else rng.choice(cands))
                elif r < 0.45 and p.default is not yutils.NO_VALUE:
                    states.append((cat.var(p.default, label='default:%r' % (p.default,)), 'is-default'))
                elif r < 0.6:
                    states.append(OMIT)
                else:
                    states.append(rng.choice(cands))
            else:
                states.append(cands[c % len(cands)] if c < 2 else rng.choice(cands))
        if not ok:
            continue
        extra = []
        if o.varargs is not None:
            cands = cat.candidates(o, o.varargs)
            if cands:
                if o.varargs.tclass in ('lambda', 'mappingrule', 'rulevalue'):
                    k = 2
                else:
                    k = rng.choice((0, 1, 2))
                extra = [rng.choice(cands) for _ in range(k)]
        if any(s_ is OMIT or isinstance(s_, tuple) for s_ in states):
            extra = []          # *args can only follow positional arguments that are all spelled out
        # a deliberately ill-typed tuple now and then (error classes must agree too)
        if c >= 2 and rng.random() < 0.2 and states and o.single_name:
            i = rng.randrange(len(states))
            if states[i] is not OMIT and not isinstance(states[i], tuple):
                states[i] = rng.choice([cat.var(None), cat.var(object()), cat.var('zz'), cat.var(-5), cat.var((1, 'x'))])
        out.append((states, extra))
    return out


def invalid_slots(mon, o, states, extra, rec):
    """an empty slot for a parameter WITHOUT a default is an error in every spelling - and stays without
    consequence for the valid spellings of the same shape that follow it"""
    n = len(o.params)
    given = [s[0] if isinstance(s, tuple) else s for s in states]
    if extra or any(g is OMIT for g in given) or n < 2:
        return
    for form in ('function', 'method'):
        if (form == 'function' and not o.is_function) or (form == 'method' and not o.is_method):
            continue
        for i, prm in enumerate(o.params):
            if prm.has_default or (form == 'method' and i == 0) or i == n - 1:
                continue        # a trailing empty slot is simply a shorter call
            pos = list(given)
            pos[i] = cat.SKIP
            r = cat.render(o, pos, {}, form=form)
            if r is None:
                continue
            text, vars_ = r
            out = mon.run(text, vars_)
            rec.count('spelling.empty-slot-for-required-parameter')
            rec.case((text, 'invalid-slot'), nontrivial=True)
            if out[0] == 'value':
                rec.violation('empty-slot-for-required-parameter-accepted:%s' % o.ident,
                              '%s leaves the slot of %r empty although it has no default, and gives %s' % (text, prm.pyname, short(out)),
                              {'kind': 'group', 'ident': o.ident, 'base': text, 'text': text})


def _is_null_var(a):
    return isinstance(a, cat.Arg) and a.kind == 'var' and a.value is None


def check_group(mon, o, states, extra, rec, _twin=False):
    results = []
    if o.ident not in mon.seen_invalid and o.single_name:
        mon.seen_invalid.add(o.ident)
        invalid_slots(mon, o, states, extra, rec)
    for form in ('function', 'method'):
        if form == 'function' and not o.is_function:
            continue
        if form == 'method' and not o.is_method:
            continue
        for labels, text, vars_ in spellings(o, states, extra, form):
            before = mon.payload_calls()
            out = mon.run(text, vars_)
            reached = mon.payload_calls() > before
            results.append((labels, form, text, vars_, out, reached))
            if not o.single_name and ('keyword' in labels or 'skipped-slot' in labels):
                # the same spelling with the overloads of the name enumerated in either forced order
                for order in (0, 1):
                    mon.order = order
                    try:
                        out2 = mon.run(text, vars_)
                    finally:
                        mon.order = None
                    rec.count('spelling.forced-enumeration-order')
                    results.append((labels + ['enumeration-%s' % ('asc' if order == 0 else 'desc')], form, text, vars_, out2, reached))
    if not results:
        return
    rec.count('groups')
    forms = {r[1] for r in results}
    if len(forms) == 2:
        rec.count('spelling.method-vs-function', len(results))
    any_reached = any(r[5] for r in results)
    base = results[0]
    for labels, form, text, vars_, out, reached in results:
        rec.count('spellings')
        for lb in labels:
            rec.count('spelling.' + lb)
        rec.case((text, tuple(a.label for a in vars_.values())), nontrivial=len(results) >= 2 and any_reached)
        if not same(out, base[4]):
            kinds = sorted(set(labels) | {'method-form' if form != base[1] else ''} - {''})
            rec.violation('spellings-disagree:%s:%s' % (o.ident, '+'.join(kinds)),
                          '%s gives %s but %s gives %s (arguments %r)' % (
                              base[2], short(base[4]), text, short(out),
                              [a.label for a in vars_.values()]),
                          {'kind': 'group', 'ident': o.ident, 'base': base[2], 'text': text})
    # a null argument written as the literal `null` is the same argument as a null coming from data
    if not _twin and any(_is_null_var(s_[0] if isinstance(s_, tuple) else s_) for s_ in states):
        twin = [((cat.text('null'), s_[1]) if isinstance(s_, tuple) and _is_null_var(s_[0]) else
                 cat.text('null') if _is_null_var(s_) else s_) for s_ in states]
        res2 = check_group(mon, o, twin, extra, rec, _twin=True)
        if res2:
            rec.count('spelling.literal-null-twin')
            if not same(res2[0][4], base[4]):
                rec.violation('spellings-disagree:%s:literal-null' % o.ident,
                              '%s gives %s with the null arguments taken from data, but %s (written as literals) gives %s' % (
                                  base[2], short(base[4]), res2[0][2], short(res2[0][4])),
                              {'kind': 'group', 'ident': o.ident, 'base': base[2], 'text': res2[0][2]})
    return results


def short(out):
    return repr(out)[:160]


def kind_checks(mon, rec):
    byname = {}
    for o in mon.overloads:
        if o.syntax[0] != 'call':
            continue
        byname.setdefault(o.name, []).append(o)
    for name, ovs in sorted(byname.items()):
        if name in NONDET:
            continue
        method_only = all(o.is_method and not o.is_function for o in ovs)
        function_only = all(o.is_function and not o.is_method for o in ovs)
        for o in ovs:
            args = cat.basic_args(o)
            if args is None:
                continue
            if method_only:
                r = cat.render(o, args, form='function!')
                if r is None:
                    continue
                out = mon.run(r[0], r[1])
                rec.count('kind.checked')
                rec.case(('kind', r[0]), nontrivial=True)
                if out != ('exc', 'NoRegisteredException'):
                    rec.violation('method-only-name-callable-as-function:%s' % name,
                                  '%s is registered as method only, but %s gives %s' % (name, r[0], short(out)),
                                  {'kind': 'kind', 'name': name})
            if function_only and args and args[0] is not cat.SKIP:
                vars_ = {}
                parts = []
                for a in args:
                    if a.kind == 'text':
                        parts.append(a.text)
                    else:
                        vars_['k%d' % len(vars_)] = a
                        parts.append('$k%d' % (len(vars_) - 1))
                recv = parts[0] if args[0].kind == 'var' else '(%s)' % parts[0]
                text = '%s.%s(%s)' % (recv, name, ', '.join(parts[1:]))
                out = mon.run(text, vars_)
                rec.count('kind.checked')
                rec.case(('kind', text), nontrivial=True)
                if out[0] == 'parse-error':
                    continue
                if out != ('exc', 'NoRegisteredException'):
                    rec.violation('function-only-name-callable-as-method:%s' % name,
                                  '%s is registered as function only, but %s gives %s' % (name, text, short(out)),
                                  {'kind': 'kind', 'name': name})


def doc_alias_checks(mon, rec):
    """explicitly aliased parameters must be documented under the alias (the name a caller can use)"""
    for o in mon.overloads:
        orig = getattr(o.payload, '__yaql_function__', None)
        if orig is None or not o.fd.doc or o.syntax[0] != 'call':
            continue
        documented = set(re.findall(r':(?:arg|receiverArg)\s+(\w+)\s*:', o.fd.doc))
        for key, pd in orig.parameters.items():
            if pd.alias and pd.alias != pd.name:
                rec.count('doc.explicit_aliases')
                rec.case(('doc-alias', o.ident, pd.alias), nontrivial=True)
                if documented and pd.alias not in documented:
                    rec.violation('documented-name-is-not-the-keyword-name:%s:%s' % (o.ident, pd.alias),
                                  '%s: parameter %r is published under the keyword name %r, but the docstring documents %r' % (
                                      o.ident, pd.name, pd.alias, sorted(documented)),
                                  {'kind': 'doc', 'ident': o.ident})


KW_KEYS = ['a', 'myVar', 'my_var', 'x_', 'from_', 'to_list', 'toList', 'A1', 'CamelCase', 'snake_case_name', 'b__',
           'ключ', 'été', 'µ', '名前', 'naïve', 'Ünï_cödé', 'ß1']


def open_kwargs_checks(mon, rec):
    """functions that take open keyword arguments (let; zipLongest's default) receive exactly the names the
    caller wrote - directly, through call() with a literal mapping and through call() with a host mapping"""
    for key in KW_KEYS:
        forms = [('keyword', 'let(%s => 5) -> $%s' % (key, key), {}),
                 ('call()+keyword', 'call(let, [], {%s => 5}) -> $%s' % (key, key), {}),
                 ('call()+host-mapping', 'call(let, [], $kw) -> $%s' % key, {'kw': cat.var(yutils.FrozenDict({key: 5}))}),
                 ('call()+positional+keyword', 'call(let, [7], {%s => 5}) -> [$1, $%s]' % (key, key), {}),
                 ('mixed', 'let(7, %s => 5) -> [$1, $%s]' % (key, key), {})]
        outs = []
        for label, text, vars_ in forms:
            out = mon.run(text, vars_)
            outs.append((label, text, out))
            rec.count('open_kwargs.cases')
            rec.case(('open-kwargs', text), nontrivial=True)
        want = {'keyword': ('value', 5), 'call()+keyword': ('value', 5), 'call()+host-mapping': ('value', 5),
                'call()+positional+keyword': ('value', [7, 5]), 'mixed': ('value', [7, 5])}
        for label, text, out in outs:
            if out != want[label]:
                rec.violation('spellings-disagree:let@system.let:%s' % label,
                              '%s gives %r; the binding named %r must be visible under exactly that name (%r expected)' % (
                                  text, out, key, want[label]), {'kind': 'open-kwargs', 'key': key})
    # names that differ only by the convention are different names for an open-kwargs function
    for text, want in (('let(my_var => 1, myVar => 2) -> [$my_var, $myVar]', ('value', [1, 2])),
                       ('call(let, [], {my_var => 1, myVar => 2}) -> [$my_var, $myVar]', ('value', [1, 2])),
                       ('[1].zipLongest([2, 3], default => 0).toList()', ('value', [[1, 2], [0, 3]])),
                       ('call(zipLongest, [[2, 3]], {default => 0}, [1]).toList()', ('value', [[1, 2], [0, 3]]))):
        out = mon.run(text, {})
        rec.count('open_kwargs.cases')
        rec.case(('open-kwargs', text), nontrivial=True)
        if out != want:
            rec.violation('spellings-disagree:open-kwargs:distinct-names', '%s gives %r, expected %r' % (text, out, want),
                          {'kind': 'open-kwargs', 'key': text})


def family_groups(mon, rec, rng, count):
    """user-defined signatures (hidden parameters at any position, defaults, keyword-only, *args) registered alone
    under the name f: every spelling of a call must bind the same arguments"""
    from vmon import families as fam
    from vmon.props import c05
    vals = {'object': ['a', 'i', 's', 't'], 'A': ['a', 'b', 'c'], 'B': ['b', 'c'], 'C': ['c'], 'D': ['d'], 'int': ['i'], 'str': ['s'],
            'tuple': ['t'], 'Seq': ['t', 's'], 'Num': ['i', 'f'], 'float': ['f'], 'anyof:str,int': ['s', 'i'], 'anyof:A,tuple': ['a', 'c', 't']}
    for n in range(count):
        spec = c05.gen_overload(rng, 't', rng.choice(['function', 'function', 'extension']), False, False)
        spec.params = [p for p in spec.params if p.kind != 'kwargs']
        if n % 4 == 1:
            # an aggregated, non-nullable parameter type: null (however it is written) is refused in every spelling
            for prm_ in spec.params:
                if prm_.kind == 'pos' and not prm_.hidden and not prm_.lazy and not prm_.has_default:
                    prm_.tname, prm_.nullable = rng.choice(['anyof:str,int', 'anyof:A,tuple']), False
                    break
        ctx = mon.ctx.create_child_context()
        fn = spec.build()
        try:
            ctx.register_function(fn)
        except Exception:
            continue
        fd = next(iter(ctx._functions['f']))
        o = cat.Overload(fd, 0)
        o.single_name = True
        for prm in o.params + o.kwonly:
            prm.kwname = camel(prm.pyname)
        byname = {p.name: p for p in spec.params}
        for prm in o.params + ([o.varargs] if o.varargs else []):
            sp = byname[prm.pyname]
            keys = vals[sp.tname] + (['n'] if sp.nullable else [])
            cat.NAME_OVERRIDES[('f', prm.name)] = [cat.var(cat.Fresh(fam.VALUES[k][1], k)) for k in keys]
            if not sp.lazy:
                # null written as a literal and null coming from data are one argument value - whether the parameter
                # accepts it or not
                cat.NAME_OVERRIDES[('f', prm.name)] += [cat.text('null'), cat.var(None, label='null-from-data')]
        mon.family_ctx = ctx
        try:
            for states, extra in arg_tuples(o, rng, 4):
                check_group(mon, o, states, extra, rec)
                rec.count('family.groups')
        finally:
            mon.family_ctx = None
            for prm in o.params + ([o.varargs] if o.varargs else []):
                cat.NAME_OVERRIDES.pop(('f', prm.name), None)
        if n % 50 == 0:
            rec.sample({'user_defined_signature': spec.desc()})


def plan(tier, seed):
    thorough = tier == 'thorough'
    parts = 16
    shards = [{'name': 'groups-%d' % p, 'kind': 'groups', 'part': p, 'parts': parts, 'tuples': 40 if thorough else 8,
               'timeout': 2400} for p in range(parts)]
    for p in range(4):
        shards.append({'name': 'groups-python-convention-%d' % p, 'kind': 'groups', 'part': p, 'parts': 4, 'python': True,
                       'tuples': 12 if thorough else 3, 'timeout': 2400})
    shards.append({'name': 'kinds', 'kind': 'kinds'})
    for p in range(8 if thorough else 2):
        shards.append({'name': 'families-%d' % p, 'kind': 'families', 'count': 1500 if thorough else 150})
    return shards


def run_shard(spec, rec):
    mon = Mon(rec, python_convention=spec.get('python', False))
    if spec.get('python'):
        rec.count('convention.python_shards')
    try:
        if spec['kind'] == 'kinds':
            kind_checks(mon, rec)
            doc_alias_checks(mon, rec)
            open_kwargs_checks(mon, rec)
            return
        if spec['kind'] == 'families':
            family_groups(mon, rec, rng_for(spec['seed'], 'c12', spec['name']), spec['count'])
            return
        idx = -1
        for o in mon.overloads:
            if o.syntax[0] in ('var', 'internal') or o.name in NONDET or o.qual == 'math.random_':
                continue
            idx += 1
            if idx % spec['parts'] != spec['part']:
                continue
            rng = rng_for(spec['seed'], 'c12', o.ident)
            for states, extra in arg_tuples(o, rng, spec['tuples']):
                res = check_group(mon, o, states, extra, rec)
                if res and idx % 40 == 0 and len(rec.samples) < 4:
                    rec.sample({'overload': o.ident, 'spellings': [r[2] for r in res][:8],
                                'arguments': [a.label for a in res[-1][3].values()], 'outcome': short(res[0][4])})
    finally:
        mon.close()


def replay(data, rec):
    mon = Mon(rec)
    try:
        if data['kind'] == 'kind':
            kind_checks(mon, rec)
        elif data['kind'] == 'doc':
            doc_alias_checks(mon, rec)
        elif data['kind'] == 'open-kwargs':
            open_kwargs_checks(mon, rec)
            rec.violations = [v for v in rec.violations if v['replay'].get('key') == data.get('key')][:3]
        else:
            for o in mon.overloads:
                if o.ident != data['ident']:
                    continue
                for seed in range(3):
                    rng = rng_for(seed, 'c12', o.ident)
                    for states, extra in arg_tuples(o, rng, 10):
                        check_group(mon, o, states, extra, rec)
            rec.violations = [v for v in rec.violations if v['replay'].get('text') == data['text']][:3] or rec.violations[:3]
    finally:
        mon.close()
