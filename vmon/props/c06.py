"""C06 - resolution does not depend on registration or iteration order.

Metamorphic oracle: for a family of overloads and a call, the set of outcomes
(payload tag or exception class) over all permutations of the enumeration
order of every layer must be a singleton.  Enumeration order is controlled by
an OrderedContext subclass of the real Context; a secondary monitor runs the
same families through the real set-based Context in fresh processes with
different hash seeds / allocation patterns.
"""
import itertools
import subprocess
import sys
import json
import os

import yaql
from yaql.language import runner as yrunner

from vmon import families as fam
from vmon import hooks
from vmon import yq
from vmon.core import rng_for, HERE

RULE = ('a case is (overload family over 1-2 layers, call, permutation of each layer\'s enumeration order); distinct '
        'by (family description, call, permutation); non-trivial = the permutation reached the winner-selection loop '
        'with at least two matching candidates in one layer (specialisation comparison executed) or raised a '
        'resolution error that depends on more than one candidate')
ASSUMPTIONS = ['outcomes compare only the payload tag or the exception class',
               'permutations are exhaustive per layer up to 4 candidates; products over 2 layers are capped at 60']
REQUIRED = {'families': 200, 'resolutions': 5000, 'reach._is_specialization_of': 2000, 'reach.choose_overload': 5000,
            'shape.specific+two-incomparable': 20, 'shape.mixed-no_kwargs': 20, 'shape.mixed-laziness': 10,
            'fresh.processes': 2, 'history.families': 100, 'history.multi_context_orders': 200, 'history.interleaved_lookups': 100,
            'history.with_exclusive_registration': 30, 'history.exclusive_layer_of_the_other_call_kind': 20}


def gen_family(rng, shape=None):
    """-> (layers: list of list of OverloadSpec, call dict, shape label)"""
    shape = shape or rng.choice(['specific+two-incomparable', 'chain', 'duplicates', 'mixed-no_kwargs', 'mixed-laziness',
                                 'random', 'random', 'two-layers', 'keyword-specificity'])
    layers = []
    tagn = itertools.count()

    def ov(types, nullable=True, lazy=(), no_kwargs=False, kind='function'):
        params = [fam.ParamSpec('p%d' % i, t, nullable=nullable, lazy=(i in lazy)) for i, t in enumerate(types)]
        return fam.OverloadSpec('t%d' % next(tagn), params, kind=kind, no_kwargs=no_kwargs)
    if shape == 'keyword-specificity':
        # every argument by keyword, overloads declaring their parameters in different orders
        from vmon.props import c05
        layers, _, cs = c05.gen_kw_family(rng)
        return layers, {'args': cs.args, 'kwargs': cs.kwargs, 'method': False}, shape
    if shape == 'specific+two-incomparable':
        # one candidate more specific than two mutually incomparable others
        layer = [ov(['C', 'C']), ov(['B', 'object']), ov(['object', 'B'])]
        if rng.random() < 0.5:
            layer.append(ov(['object', 'object']))
        layers = [layer]
        args = ['c', 'c']
    elif shape == 'chain':
        ts = rng.sample(['object', 'A', 'B', 'C'], rng.choice((2, 3, 4)))
        layers = [[ov([t]) for t in ts]]
        args = [rng.choice('abc')]
    elif shape == 'duplicates':
        t = rng.choice(['A', 'B', 'object'])
        layers = [[ov([t]), ov([t])] + ([ov(['C'])] if rng.random() < 0.5 else [])]
        args = ['c']
    elif shape == 'mixed-no_kwargs':
        k = rng.choice((2, 3))
        layer = [ov(['object', 'object'], no_kwargs=(i % 2 == 0)) for i in range(k)]
        rng.shuffle(layer)
        layers = [layer]
        args = ['c', rng.choice(['rule:kw', 'rule:var', 'c'])]
    elif shape == 'mixed-laziness':
        layer = [ov(['object', 'object'], lazy=(1,)), ov(['object', 'object']), ov(['C', 'object'])]
        layers = [layer[:rng.choice((2, 3))]]
        args = ['c', 'i']
    elif shape == 'two-layers':
        l0, _, _ = gen_family(rng, rng.choice(['specific+two-incomparable', 'chain', 'random']))
        l1, _, _ = gen_family(rng, rng.choice(['chain', 'random', 'duplicates']))
        layers = [l0[0], l1[0]]
        n = len(layers[0][0].params)
        args = [rng.choice('abcdisn') for _ in range(n)]
        # re-tag uniquely
        for li, layer in enumerate(layers):
            for oi, o in enumerate(layer):
                o.tag = 'L%dt%d' % (li, oi)
    else:
        n = rng.choice((1, 2, 2, 3))
        k = rng.choice((2, 3, 3, 4))
        layer = []
        for _ in range(k):
            types = [rng.choice(['object', 'A', 'B', 'C', 'D', 'int', 'str']) for _ in range(n)]
            layer.append(ov(types, nullable=rng.random() < 0.7, lazy=tuple(i for i in range(n) if rng.random() < 0.08),
                            no_kwargs=rng.random() < 0.1))
        layers = [layer]
        args = [rng.choice('abcdisn') for _ in range(n)]
    kind = 'function'
    if rng.random() < 0.25 and shape not in ('mixed-laziness',) and not any(
            o.params[0].lazy for layer in layers for o in layer):
        kind = 'extension'
        for layer in layers:
            for o in layer:
                o.kind = 'extension'
    call = {'args': args, 'method': kind == 'extension' and rng.random() < 0.6}
    return layers, call, shape


def render_call(call):
    parts = []
    vars_ = {}
    for name, a in (call.get('kwargs') or {}).items():
        vars_['k' + name] = fam.VALUES[a][1]()
    kwparts = ['%s => $k%s' % (name, name) for name in (call.get('kwargs') or {})]
    for i, a in enumerate(call['args']):
        if a == 'rule:kw':
            vars_['r%d' % i] = fam.VALUES['c'][1]()
            parts.append('zz => $r%d' % i)
        elif a == 'rule:var':
            vars_['r%d' % i] = fam.VALUES['c'][1]()
            parts.append('$r%d => 1' % i)
        else:
            vars_['a%d' % i] = fam.VALUES[a][1]()
            parts.append('$a%d' % i)
    if call.get('method') and parts and not parts[0].count('=>'):
        return '%s.f(%s)' % (parts[0], ', '.join(parts[1:] + kwparts)), vars_
    return 'f(%s)' % ', '.join(parts + kwparts), vars_


class World:
    def __init__(self, root, layers, ordered=True):
        self.ctxs = []
        self.fds = []
        parent = root
        # farthest layer first: layers[0] is the nearest
        for layer in reversed(layers):
            ctx = fam.OrderedContext(parent) if ordered else type(root)(parent)
            fds = []
            for o in layer:
                fn = o.build()
                ctx.register_function(fn)
                fd = next(f for f in ctx._functions[o.name] if f.payload is fn)
                fds.append(fd)
            self.ctxs.insert(0, ctx)
            self.fds.insert(0, fds)
            parent = ctx
        self.top = self.ctxs[0]

    def set_order(self, perms):
        for ctx, fds, perm in zip(self.ctxs, self.fds, perms):
            ctx.order = [fds[i] for i in perm]


def outcome(st, ctx, vars_):
    c = ctx.create_child_context()
    for k, v in vars_.items():
        c[k] = v
    try:
        r = st.evaluate(context=c)
        if isinstance(r, (list, tuple)) and len(r) == 2 and isinstance(r[0], str):
            return 'ran:' + r[0]
        return 'value:%r' % (r,)
    except Exception as e:
        return 'exc:' + type(e).__name__


def classify(outs):
    kinds = set()
    for o in outs:
        if o.startswith('ran:'):
            kinds.add('winner')
        elif 'Ambiguous' in o:
            kinds.add('ambiguous')
        elif 'NoMatching' in o:
            kinds.add('no-match')
        elif 'MappingTranslation' in o or 'ArgumentException' in o:
            kinds.add('translation-error')
        else:
            kinds.add(o.split(':', 1)[1])
    if kinds == {'winner'}:
        return 'two-different-winners'
    return '+'.join(sorted(kinds))


def check_family(mon, layers, call, shape, rec, label):
    text, vars_ = render_call(call)
    w = World(mon['root'], layers)
    try:
        st = mon['eng'](text)
    except Exception as e:
        rec.inconc('call text %r does not parse: %s' % (text, e))
        return
    perm_sets = [list(itertools.permutations(range(len(layer)))) for layer in layers]
    combos = list(itertools.product(*perm_sets))
    if len(combos) > 60:
        combos = mon['rng'].sample(combos, 60)
    outs = {}
    rec.count('families')
    rec.count('shape.' + shape)
    for perms in combos:
        w.set_order(perms)
        before = mon['reach'].counts.get('_is_specialization_of', 0)
        o = outcome(st, w.top, vars_)
        compared = mon['reach'].counts.get('_is_specialization_of', 0) > before
        rec.count('resolutions')
        rec.case((label, text, perms), nontrivial=compared or 'Ambiguous' in o)
        outs.setdefault(o, perms)
    if len(outs) > 1:
        desc = [[o.desc() for o in layer] for layer in layers]
        rec.violation('resolution-order-dependent:%s' % classify(outs),
                      'call %s against family %s gives %s depending on the enumeration order (e.g. %s)' % (
                          text, [[('%s(%s)%s%s' % (o.tag, ','.join(p.tname + ('~' if p.lazy else '') for p in o.params),
                                                   ' no_kwargs' if o.no_kwargs else '', ' ext' if o.kind == 'extension' else ''))
                                  for o in layer] for layer in layers],
                          sorted(outs), {o: list(map(list, p)) for o, p in outs.items()}),
                      {'kind': 'family', 'layers': desc, 'call': call, 'shape': shape})
    return outs


def check_history(mon, layers, call, shape, rec, label, exclusive_layer0=False):
    """the same layers of overloads assembled along different histories: registered at creation (baseline),
    registered late and in any order into an already existing chain - with look-ups through an already existing
    descendant in between -, and with every layer split over the members of a multi-context in every member order"""
    from yaql.language import contexts as yctx
    rng = mon['rng']
    text, vars_ = render_call(call)
    try:
        st = mon['eng'](text)
    except Exception as e:
        rec.inconc('call text %r does not parse: %s' % (text, e))
        return
    # some registrations are exclusive (the layer then hides the layers behind it)
    excl = {id(o): (rng.random() < 0.15) for layer in layers for o in layer}
    if exclusive_layer0 and layers[0]:
        excl[id(layers[0][0])] = True
        rec.count('history.exclusive_layer_of_the_other_call_kind')
    parent = mon['root']
    for layer in reversed(layers):
        ctx = yctx.Context(parent)
        for o in layer:
            ctx.register_function(o.build(), exclusive=excl[id(o)])
        parent = ctx
    base = outcome(st, parent, vars_)
    if any(excl.values()):
        rec.count('history.with_exclusive_registration')
    variants = {}
    # late registration with interleaved look-ups
    ctxs = []
    parent = mon['root']
    for layer in reversed(layers):
        ctx = yctx.Context(parent)
        ctxs.insert(0, ctx)
        parent = ctx
    leaf = ctxs[0].create_child_context().create_child_context()
    outcome(st, leaf, vars_)
    jobs = [(li, o) for li, layer in enumerate(layers) for o in layer]
    rng.shuffle(jobs)
    for li, o in jobs:
        ctxs[li].register_function(o.build(), exclusive=excl[id(o)])
        if rng.random() < 0.6:
            outcome(st, leaf, vars_)
            rec.count('history.interleaved_lookups')
    variants['late-registration:old-descendant'] = outcome(st, leaf, vars_)
    variants['late-registration:new-descendant'] = outcome(st, ctxs[0], vars_)
    # every layer as a multi-context, members in every order
    splits = []
    for layer in layers:
        k = min(rng.choice((2, 2, 3)), max(len(layer), 1))
        splits.append([rng.randrange(k) for _ in layer] + [k])
    orders = [list(itertools.permutations(range(sp[-1]))) for sp in splits]
    combos = list(itertools.product(*orders))
    if len(combos) > 12:
        combos = rng.sample(combos, 12)
    for ci, combo in enumerate(combos):
        parent = mon['root']
        shared_parent = ci % 2 == 1       # members that all hang under the same parent: the ancestors are reached through
        #                                   every member, each of their overloads is still one overload
        for layer, sp, order in zip(reversed(layers), reversed(splits), reversed(combo)):
            k = sp[-1]
            members = [yctx.Context(parent if (m == 0 or shared_parent) else None) for m in range(k)]
            for o, m in zip(layer, sp):
                fn = o.build()
                members[m].register_function(fn, exclusive=excl[id(o)])
                if shared_parent and k > 1 and rng.random() < 0.3:
                    # one definition registered in two members is one overload of the layer
                    fd = next(f for f in members[m]._functions[o.name] if f.payload is fn)
                    members[(m + 1) % k].register_function(fd, exclusive=excl[id(o)])
            parent = yctx.MultiContext([members[m] for m in order])
        variants['multi-context:%smember-order=%r' % ('shared-parent:' if shared_parent else '', combo)] = outcome(st, parent, vars_)
        rec.count('history.multi_context_orders')
    rec.count('families')
    rec.count('history.families')
    rec.count('shape.' + shape)
    rec.count('resolutions', len(variants) + 1)
    rec.case((label, text, 'history'), nontrivial=sum(len(layer) for layer in layers) >= 2)
    bad = {k: v for k, v in variants.items() if v != base}
    if bad:
        kinds = sorted({k.split(':')[0] for k in bad})
        rec.violation('resolution-history-dependent:%s' % '+'.join(kinds),
                      'call %s against layers %s gives %s when every overload is registered at creation, but %s' % (
                          text, [[o.tag for o in layer] for layer in layers], base, dict(list(bad.items())[:3])),
                      {'kind': 'history', 'layers': [[o.desc() for o in layer] for layer in layers], 'call': call, 'shape': shape})
    return variants


def spec_from_desc(d):
    params = [fam.ParamSpec(p['name'], p['type'], p['nullable'], p.get('default'), 'default' in p, p.get('lazy', False),
                            p.get('hidden'), p['kind']) for p in d['params']]
    spec = fam.OverloadSpec(d['tag'], params, d['kind'], d['no_kwargs'])
    spec.decor_seed = d.get('decor_seed')
    return spec


def plan(tier, seed):
    thorough = tier == 'thorough'
    shards = [{'name': 'perm-%d' % p, 'kind': 'perm', 'count': 3200 if thorough else 100} for p in range(16)]
    for p in range(8 if thorough else 2):
        shards.append({'name': 'history-%d' % p, 'kind': 'history', 'count': 2500 if thorough else 150})
    for p in range(16 if thorough else 2):
        shards.append({'name': 'fresh-%d' % p, 'kind': 'fresh', 'count': 500 if thorough else 60,
                       'env': {'PYTHONHASHSEED': str(p + 1)}})
    return shards


def make_mon(rec, rng):
    reach = hooks.Reach()
    reach.watch(yrunner._is_specialization_of, '_is_specialization_of')
    reach.watch(yrunner.choose_overload, 'choose_overload')
    reach.start()
    return {'root': yaql.create_context(), 'eng': yq.engine(), 'reach': reach, 'rng': rng}


def run_shard(spec, rec):
    rng = rng_for(spec['seed'], 'c06', spec['name'])
    mon = make_mon(rec, rng)
    try:
        if spec['kind'] == 'perm':
            for i in range(spec['count']):
                layers, call, shape = gen_family(rng)
                outs = check_family(mon, layers, call, shape, rec, '%s/%d' % (spec['name'], i))
                if i % 40 == 0 and outs is not None:
                    rec.sample({'shape': shape, 'call': render_call(call)[0],
                                'family': [[o.desc() for o in layer] for layer in layers][0][:3], 'outcomes': sorted(outs)})
        elif spec['kind'] == 'history':
            for i in range(spec['count']):
                layers, call, shape = gen_family(rng, 'two-layers' if i % 2 else None)
                other_kind = False
                if len(layers) == 2 and i % 6 == 1 and not any(o.params[0].lazy for o in layers[0] if o.params):
                    # the nearer layer holds only overloads of the call kind this call does not use, one of them
                    # registered exclusively: the layer still ends the outward walk
                    for o in layers[0]:
                        o.kind = 'function' if call.get('method') else 'method'
                    other_kind = all(o.params for o in layers[0])
                check_history(mon, layers, call, shape + ('+other-kind-exclusive' if other_kind else ''), rec,
                              '%s/%d' % (spec['name'], i), exclusive_layer0=other_kind)
        else:
            _fresh(spec, mon, rec, rng)
    finally:
        mon['reach'].flush(rec)
        mon['reach'].stop()


def _fresh(spec, mon, rec, rng):
    """the real set-based Context: outcomes in this process (this hash seed, this allocation pattern) are compared
    with the outcome set computed through OrderedContext permutations"""
    rec.count('fresh.processes')
    frng = rng_for(spec['seed'], 'c06', 'fresh-families')     # same families in every fresh process
    junk = [object() for _ in range(rng.randrange(1, 5000))]   # shift allocation addresses
    for i in range(spec['count']):
        layers, call, shape = gen_family(frng)
        text, vars_ = render_call(call)
        real = World(mon['root'], layers, ordered=False)
        st = mon['eng'](text)
        o = outcome(st, real.top, vars_)
        rec.count('resolutions')
        rec.count('fresh.resolutions')
        rec.case(('fresh', os.environ.get('PYTHONHASHSEED'), i), nontrivial=True)
        sub = {}

        class R:   # collect, do not double-report
            def __getattr__(self, n):
                return lambda *a, **k: None
        outs = check_family(mon, layers, call, shape, rec, 'fresh/%d' % i)
        if outs is not None and len(outs) == 1 and o not in outs:
            rec.violation('resolution-differs-between-real-set-context-and-ordered-enumeration',
                          'call %s: real Context gave %s, every permutation gave %s' % (text, o, sorted(outs)),
                          {'kind': 'family', 'layers': [[x.desc() for x in layer] for layer in layers], 'call': call,
                           'shape': shape})
    del junk


def replay(data, rec):
    rng = rng_for(0, 'replay')
    mon = make_mon(rec, rng)
    try:
        layers = [[spec_from_desc(d) for d in layer] for layer in data['layers']]
        if data.get('kind') == 'history':
            for _ in range(5):
                print(check_history(mon, layers, data['call'], data.get('shape', 'replay'), rec, 'replay'))
            return
        outs = check_family(mon, layers, data['call'], data.get('shape', 'replay'), rec, 'replay')
        print('call %s -> outcomes by permutation: %r' % (render_call(data['call'])[0], outs))
    finally:
        mon['reach'].stop()
