"""C03 - parsing is total: a statement or a YAQL parsing error, nothing else.

Monitor: exception-class census + position range check + logical token budget
(number of ply Lexer.token calls) over token soups, mutations, escape shapes,
long numerals/identifiers, deep nesting and arbitrary code points.
"""
import itertools
import sys
import traceback

from ply import lex as plylex
from yaql.language import exceptions as yexc
from yaql.language import lexer as ylexer
from yaql.language import parser as yparser

from vmon import hooks
from vmon import yq
from vmon import core
from vmon.core import rng_for

PARSE_CPU_BUDGET = 300      # seconds of CPU for one parse; the slowest input of the corpus needs about 15

RULE = ('token sequences over the full token alphabet (operators of the engine table, brackets, '
        'mapping, $-variables, keywords, calls, numbers, three string styles, constants, __words, '
        'illegal characters) joined with and without spaces; single-character mutations of valid '
        'expressions; backslash-escape shapes in three quote styles; long numerals/identifiers/nesting; '
        'random code points. distinct = distinct input text; non-trivial = text is non-empty and '
        'the parse reached the lexer (token hook fired)')
ASSUMPTIONS = [
    'termination is judged by a logical budget (ply Lexer.token calls <= len(text)+2); a wall-clock '
    'kill of a shard is inconclusive',
    'inputs are capped at 6000 characters for digit runs (NUMBER rule is quadratic)',
    'a single parse that uses more than 300 s of CPU (20 times the slowest input of the corpus) counts as not terminating',
]
REQUIRED = {'hook.token_calls': 100, 'outcome.statement': 10, 'outcome.YaqlGrammarException': 10,
            'outcome.YaqlLexicalException': 10, 'reach.Lexer.t_error': 5, 'reach.Parser.p_error': 5}
EXHAUSTIVE = 'quick: all token sequences of length <= 2; thorough: all of length <= 3'

VALID = [
    "$.a.b[0]", "foo(1, 2, a => 3)", "[1, 2, 3].select($ * 2).where($ > 2)",
    "{a => 1, 'b' => [1, 2]}.get(a)", "$x.y?.z(1, , 3)", "not $a and $b or $c",
    "'abc' + \"def\" + `g\\`h`", "1.5 * -2 + +3 mod 4 / 5", "$ -> $.x", "a in [1,2] = true",
    "dict(a => 1).set(b, 2)", "$[1:2]" if False else "$.list[1][2]", "-(-1)", "f()",
    "let(x => 1) -> $x", "$a >= $b != ($c <= $d)", "'\\x41\\u0042\\U00000043\\101\\N{LATIN SMALL LETTER A}\\n'",
    "str(12.5) =~ '\\\\d+'", "null = $ !~ 'a'", "x(y(z(1)))",
]


def token_alphabet(eng):
    ops = [o for o in eng.factory.operators if o]
    syms = sorted({o[0] for o in ops if o[0] not in ('[]', '{}')})
    toks = syms + ['(', ')', '[', ']', '{', '}', ',', '$', '$x', '$1', 'a', 'b_c', 'f(', 'g(',
                   '1', '23', '1.5', '0.', "'s'", '"s"', '`s`', "''", 'true', 'false', 'null',
                   '__x', '__f(', '#', '@', "'", '"', '`', '\\', '!', '?', '.5', '1e5', 'é',
                   '中(', ':', ';', '~', '=', '<', '&']
    seen = []
    for t in toks:
        if t not in seen:
            seen.append(t)
    return seen


class Monitor:
    def __init__(self, rec):
        self.rec = rec
        self.eng = yq.engine()
        self.leg = yq.engine(legacy=True)
        self.deleg = yq.engine(allow_delegates=True)
        # engines that differ in options only: what a text parses to, or which parsing error it gets, is not their
        # business (limits and conversion options govern evaluation)
        import yaql as _yaql
        from yaql.language import factory as _yfactory
        opts = {'yaql.memoryQuota': 500, 'yaql.limitIterators': 3, 'yaql.convertSetsToLists': True}
        custom = _yaql.YaqlFactory()
        custom.insert_operator('+', True, '+++', _yfactory.OperatorType.BINARY_LEFT_ASSOCIATIVE, False)
        self.flavours = [('options', yq.engine(opts)), ('copy-with-options', self.eng.copy(opts)),
                         ('legacy-with-options', yq.engine(opts, legacy=True)), ('custom-table-with-options', custom.create(options=opts)),
                         ('no-keyword-operator', yq.engine(opts, keyword_operator=None))]
        self.turn = 0
        self.token_calls = 0
        self.patches = hooks.Patches()
        orig = plylex.Lexer.token
        mon = self

        def token(lexer_self):
            mon.token_calls += 1
            return orig(lexer_self)
        self.patches.set(plylex.Lexer, 'token', token)
        self.reach = hooks.Reach()
        self.reach.watch(ylexer.Lexer.t_error, 'Lexer.t_error')
        self.reach.watch(yparser.Parser.p_error, 'Parser.p_error')
        for n in ('t_NUMBER', 't_QUOTED_STRING', 't_DOUBLE_QUOTED_STRING',
                  't_QUOTED_VERBATIM_STRING', 't_KEYWORD_STRING', 't_FUNC', 't_DOLLAR'):
            self.reach.watch(getattr(ylexer.Lexer, n), 'Lexer.' + n)
        self.reach.watch(ylexer.decode_escapes, 'decode_escapes')
        self.reach.start()

    def close(self):
        self.reach.flush(self.rec)
        self.reach.stop()
        self.patches.restore()
        self.rec.count('hook.token_calls', 0)

    def check(self, text, family, eng=None, engname='default'):
        rec = self.rec
        eng = eng or self.eng
        before = self.token_calls
        outcome = None
        core.cpu_budget(PARSE_CPU_BUDGET, {'family': family, 'seconds': PARSE_CPU_BUDGET,
                                           'what': 'parsing a text of %d characters starting %r' % (len(text), text[:60]),
                                           'replay': {'text': text if len(text) <= 4000 else text[:4000], 'engine': engname}})
        try:
            eng(text)
            outcome = 'statement'
        except yexc.YaqlParsingException as e:
            outcome = type(e).__name__
            pos = e.position
            if pos is not None:
                if not (isinstance(pos, int) and 0 <= pos < max(len(text), 1)) or len(text) == 0:
                    rec.violation('position-out-of-range:%s' % type(e).__name__,
                                  'position %r outside [0,%d) for text %r' % (pos, len(text), text[:200]),
                                  {'text': text, 'engine': engname})
        except RecursionError as e:
            outcome = 'RecursionError'
            rec.violation('non-yaql-exception:RecursionError:' + _site(e),
                          'RecursionError for text of %d chars starting %r' % (len(text), text[:60]),
                          {'text': text, 'engine': engname})
        except Exception as e:
            outcome = type(e).__name__
            rec.violation('non-yaql-exception:%s:%s' % (type(e).__name__, _site(e)),
                          '%s: %s escaped the parser for text %r' % (type(e).__name__, str(e)[:120], text[:200]),
                          {'text': text, 'engine': engname})
        calls = self.token_calls - before
        rec.count('hook.token_calls', calls)
        if calls > len(text) + 2:
            rec.violation('token-budget-exceeded', '%d token fetches for %d characters: %r' % (
                calls, len(text), text[:200]), {'text': text, 'engine': engname})
        rec.count('outcome.' + outcome)
        rec.count('family.' + family)
        rec.case(text, nontrivial=bool(text) and calls > 0)
        if eng is self.eng and engname == 'default':
            self.turn += 1
            every = family.startswith(('long', 'deep'))
            if every or self.turn % 5 == 0:
                for fi, (fname, feng) in enumerate(self.flavours):
                    if every or (self.turn // 5) % len(self.flavours) == fi:
                        rec.count('flavour.' + fname)
                        self.check(text, family + '@' + fname, feng, fname)
        return outcome


def _site(e):
    """innermost frame inside yaql (function name) - the mechanism of the escape"""
    site = 'unknown'
    for fs in traceback.extract_tb(e.__traceback__):
        if '/yaql/' in fs.filename.replace('\\', '/'):
            site = fs.name
    return site


def plan(tier, seed):
    thorough = tier == 'thorough'
    shards = [{'name': 'tok2', 'kind': 'tok', 'n': 2, 'part': 0, 'parts': 1, 'sample': None}]
    parts = 16 if thorough else 8
    for p in range(parts):
        shards.append({'name': 'tok3-%d' % p, 'kind': 'tok', 'n': 3, 'part': p, 'parts': parts,
                       'sample': None if thorough else 30000 // parts})
    nm = 16 if thorough else 4
    for p in range(nm):
        shards.append({'name': 'mut-%d' % p, 'kind': 'mut', 'part': p,
                       'count': 30000 if thorough else 5000})
    shards.append({'name': 'escapes', 'kind': 'esc'})
    shards.append({'name': 'long', 'kind': 'long'})
    ns = 8 if thorough else 2
    for p in range(ns):
        shards.append({'name': 'soup-%d' % p, 'kind': 'soup', 'part': p,
                       'count': 20000 if thorough else 4000})
    shards.append({'name': 'codepoints', 'kind': 'cp', 'count': 20000 if thorough else 2000})
    for engname in ('default', 'legacy', 'delegates'):
        shards.append({'name': 'lrcov-' + engname, 'kind': 'lrcov', 'engine': engname,
                       'count': 400000 if thorough else 40000})
    return shards


def run_shard(spec, rec):
    mon = Monitor(rec)
    try:
        kind = spec['kind']
        if kind == 'tok':
            _tok(spec, mon, rec)
        elif kind == 'mut':
            _mut(spec, mon, rec)
        elif kind == 'esc':
            _esc(spec, mon, rec)
        elif kind == 'long':
            _long(spec, mon, rec)
        elif kind == 'soup':
            _soup(spec, mon, rec)
        elif kind == 'cp':
            _cp(spec, mon, rec)
        elif kind == 'lrcov':
            _lrcov(spec, mon, rec)
    finally:
        mon.close()


def _tok(spec, mon, rec):
    alpha = token_alphabet(mon.eng)
    rec.count('alphabet', len(alpha) if spec['part'] == 0 else 0)
    n = spec['n']
    rng = rng_for(spec['seed'], 'c03', spec['name'])
    seqs = itertools.product(alpha, repeat=n)
    if n == 2:
        # also all of length 0 and 1
        seqs = itertools.chain([()], ((a,) for a in alpha), seqs)
    idx = -1
    total = len(alpha) ** n
    keep = None
    if spec.get('sample'):
        keep = set(rng.sample(range(total), min(total, spec['sample'] * spec['parts'])))
    for seq in seqs:
        idx += 1
        if idx % spec['parts'] != spec['part']:
            continue
        if keep is not None and idx not in keep:
            continue
        for sep in (' ', ''):
            text = sep.join(seq)
            mon.check(text, 'tok%d' % n)
        if idx % 97 == 0:
            mon.check(' '.join(seq), 'tok%d-legacy' % n, mon.leg, 'legacy')
            mon.check(' '.join(seq), 'tok%d-delegates' % n, mon.deleg, 'delegates')
        if idx % 5000 == 0:
            rec.sample({'family': 'tok%d' % n, 'text': ' '.join(seq)})


MUT_CHARS = list("()[]{},.$'\"`\\=><!-+*/?~ \t\n0a_#@:") + ['é', '中', '\x00', '\U0001F600', '\ud800']


def _mut(spec, mon, rec):
    rng = rng_for(spec['seed'], 'c03', spec['name'])
    for i in range(spec['count']):
        t = rng.choice(VALID)
        for _ in range(rng.choice((1, 1, 1, 2, 3))):
            op = rng.randrange(3)
            pos = rng.randrange(len(t) + 1)
            if op == 0:
                t = t[:pos] + rng.choice(MUT_CHARS) + t[pos:]
            elif op == 1 and t:
                pos = min(pos, len(t) - 1)
                t = t[:pos] + t[pos + 1:]
            elif t:
                pos = min(pos, len(t) - 1)
                t = t[:pos] + rng.choice(MUT_CHARS) + t[pos + 1:]
        which = i % 7
        if which == 5:
            mon.check(t, 'mutation-legacy', mon.leg, 'legacy')
        elif which == 6:
            mon.check(t, 'mutation-delegates', mon.deleg, 'delegates')
        else:
            mon.check(t, 'mutation')
        if i % 2000 == 0:
            rec.sample({'family': 'mutation', 'text': t})


def escape_bodies():
    hexs = ['', '4', '41', '4G', 'ZZ', 'zz', '  ', '00', 'ff', 'FF', 'g1']
    out = []
    for h in hexs:
        out.append('\\x' + h)
    for h in ['', '0', '00', '004', '0041', '004G', 'ZZZZ', 'd800', 'DFFF', 'ffff', '    ', '00 1']:
        out.append('\\u' + h)
    for h in ['', '0000004', '00000041', '0000004G', 'ZZZZZZZZ', '0010FFFF', '00110000', '99999999',
              'FFFFFFFF', '0000d800', '        ']:
        out.append('\\U' + h)
    for n in ['', '{', '{}', '{LATIN SMALL LETTER A}', '{foo}', '{latin small letter a}', '{ }', '{a', '{{}',
              '{DIGIT ONE}x', '{é}']:
        out.append('\\N' + n)
    for o in ['0', '7', '8', '9', '12', '123', '1234', '377', '400', '777', '78', '18']:
        out.append('\\' + o)
    for c in '\\\'"`abfnrtvzcdeghijklmopqswyABCDEFG0 \n\t(){}$':
        out.append('\\' + c)
    out += ['\\é', '\\中', '\\\U0001F600', '\\\x00', '\\\ud800']
    return out


def _esc(spec, mon, rec):
    bodies = escape_bodies()
    ctx = ['%s', 'a%s', '%sb', 'a%sb', '中%s', '%sé', '%s%s', '\\\\%s', "%s\\"]
    for q in "'\"`":
        for b in bodies:
            for c in ctx:
                try:
                    body = c % ((b,) * c.count('%s'))
                except TypeError:
                    continue
                text = q + body + q
                mon.check(text, 'escape' + {"'": '-single', '"': '-double', '`': '-verbatim'}[q])
                mon.check('foo(' + text + ', 1)', 'escape-embedded')
    rec.sample({'family': 'escape', 'text': "'a\\x4Gb'"})


def _long(spec, mon, rec):
    rng = rng_for(spec['seed'], 'c03', 'long')
    lengths = [1, 2, 10, 18, 19, 20, 100, 308, 309, 310, 1000, 4299, 4300, 4301, 5000, 6000]
    for n in lengths:
        d = ''.join(rng.choice('0123456789') for _ in range(n))
        d1 = '1' + d[1:]
        for text in (d, d1, '0' * n, '-' + d1, d1 + ' + 1', '[' + d1 + ']'):
            mon.check(text, 'long-int')
        if n >= 2:
            for k in (1, n // 2, n - 1):
                mon.check(d1[:k] + '.' + d1[k:], 'long-float')
        if n <= 2000:
            mon.check(d1 + 'x', 'long-int-letter')
    for n in (10, 1000, 100000):
        ident = ''.join(rng.choice('abcXYZ_09é') for _ in range(n))
        ident = 'a' + ident
        for text in (ident, ident + '(1)', '$' + ident, '$.' + ident, ident + ' => 1', '__' + ident,
                     "'" + ident + "'", '"' + ident, '`' + ident + '`'):
            mon.check(text, 'long-ident')
    for n in (10, 1000, 20000, 100000):
        for text in ('(' * n + '1' + ')' * n, '(' * n + '1' + ')' * (n - 1), '(' * n,
                     '[' * n + ']' * n, '[' * n + '1' + ']' * n, '{' * n + '}' * n,
                     '- ' * n + '1', 'not ' * n + 'true', 'f(' * n + ')' * n,
                     '1' + ' + 1' * n, '$' + '.a' * n, '$' + '[0]' * n, '1' + ',' * n, 'f(' + ',' * n + '1)',
                     ' ' * n, ' ' * n + '1', "'" + "\\'" * n + "'", "'" + '\\' * n + "'", ')' * n):
            mon.check(text, 'deep-nesting')
    rec.sample({'family': 'long', 'text': '(' * 5 + '1' + ')' * 5 + ' (repeated up to 100000 deep)'})


def _soup(spec, mon, rec):
    rng = rng_for(spec['seed'], 'c03', spec['name'])
    alpha = token_alphabet(mon.eng)
    for i in range(spec['count']):
        n = rng.randrange(4, 14)
        seq = [rng.choice(alpha) for _ in range(n)]
        text = ''.join(t + rng.choice(('', ' ', ' ', '\n', '\t')) for t in seq)
        which = i % 9
        if which == 7:
            mon.check(text, 'soup-legacy', mon.leg, 'legacy')
        elif which == 8:
            mon.check(text, 'soup-delegates', mon.deleg, 'delegates')
        else:
            mon.check(text, 'soup')
        if i % 2000 == 0:
            rec.sample({'family': 'soup', 'text': text})


def _cp(spec, mon, rec):
    rng = rng_for(spec['seed'], 'c03', 'cp')
    ranges = [(0, 0x80), (0x80, 0x800), (0x800, 0xD800), (0xD800, 0xE000), (0xE000, 0x10000),
              (0x10000, 0x110000)]
    for cp in range(0, 0x300):
        c = chr(cp)
        for text in (c, c + 'a', 'a' + c, "'" + c + "'", '$' + c, c + '(1)', '1' + c + '2'):
            mon.check(text, 'codepoint')
    for i in range(spec['count']):
        n = rng.randrange(1, 12)
        s = ''
        for _ in range(n):
            lo, hi = rng.choice(ranges)
            s += chr(rng.randrange(lo, hi))
        form = i % 5
        text = (s, "'" + s + "'", 'a' + s + '(', '$' + s, '"' + s)[form]
        mon.check(text, 'codepoint')
        if i % 1000 == 0:
            rec.sample({'family': 'codepoint', 'codepoints': [ord(ch) for ch in text]})


def _lrcov(spec, mon, rec):
    """Feedback-directed exploration of the parser's LR automaton: the engine's own
    ply parser object has its action table instrumented (hooks.LRCoverage); token
    sequences that make the parser consult a (state, lookahead) pair not seen before -
    a table entry or a syntax-error pair - are kept and mutated further.  The oracle is
    the same Monitor.check as for every other family; the coverage reached is evidence."""
    rng = rng_for(spec['seed'], 'c03', spec['name'])
    engname = spec['engine']
    eng = {'legacy': mon.leg, 'delegates': mon.deleg}.get(engname, mon.eng)
    cov = hooks.LRCoverage(eng.parser)
    alpha = token_alphabet(eng)
    corpus = [[t] for t in alpha] + [_split_tokens(v) for v in VALID]
    seen_n = 0
    kept = 0
    try:
        for seq in list(corpus):
            mon.check(' '.join(seq), 'lrcov-' + engname, eng, engname)
        seen_n = len(cov.seen)
        for i in range(spec['count']):
            seq = list(rng.choice(corpus)) if rng.random() < 0.9 else [rng.choice(alpha)]
            for _ in range(rng.choice((1, 1, 2, 3))):
                op = rng.randrange(7)
                pos = rng.randrange(len(seq) + 1)
                if op == 0:
                    seq.insert(pos, rng.choice(alpha))
                elif op == 1 and seq:
                    del seq[min(pos, len(seq) - 1)]
                elif op == 2 and seq:
                    seq[min(pos, len(seq) - 1)] = rng.choice(alpha)
                elif op == 3:
                    other = rng.choice(corpus)
                    cut = rng.randrange(len(other) + 1)
                    seq = seq[:pos] + other[cut:]
                elif op == 4:
                    o, c = rng.choice((('(', ')'), ('[', ']'), ('{', '}'), ('f(', ')'), ('$.x(', ')')))
                    end = rng.randrange(pos, len(seq) + 1)
                    seq = seq[:pos] + [o] + seq[pos:end] + [c] + seq[end:]
                elif op == 5 and seq:
                    a = min(pos, len(seq) - 1)
                    b = rng.randrange(a, len(seq)) + 1
                    seq = seq[:b] + seq[a:b] + seq[b:]
                else:
                    other = rng.choice(corpus)
                    seq = seq[:pos] + [rng.choice(alpha)] + other
            if len(seq) > 40:
                seq = seq[:40]
            text = (' ' if rng.random() < 0.8 else '').join(seq)
            mon.check(text, 'lrcov-' + engname, eng, engname)
            if len(cov.seen) > seen_n:
                seen_n = len(cov.seen)
                corpus.append(seq)
                kept += 1
                if kept % 50 == 1:
                    rec.sample({'family': 'lrcov-' + engname, 'text': text, 'new_pairs_total': seen_n})
    finally:
        cov.restore()
    rec.count('lrcov.%s.table_entries' % engname, len(cov.entries))
    rec.count('lrcov.%s.table_entries_exercised' % engname, len(cov.hits()))
    rec.count('lrcov.%s.error_pairs_exercised' % engname, len(cov.misses()))
    rec.count('lrcov.%s.states_visited' % engname, len({s for s, _ in cov.seen}))
    rec.count('lrcov.%s.states' % engname, len(cov.orig))
    rec.count('lrcov.%s.corpus_kept' % engname, kept)


def _split_tokens(text):
    """rough token split of a valid expression (only used to seed the corpus)"""
    import re as _re
    return _re.findall(r"""'(?:[^'\\]|\\.)*'|"(?:[^"\\]|\\.)*"|`(?:[^`\\]|\\.)*`|\$\w*|\w+\(|\d+\.\d+|\w+|\.|=>|->|\?\.|[<>!=]=|=~|!~|\S""", text)


def replay(data, rec):
    mon = Monitor(rec)
    try:
        text = data['text']
        if isinstance(text, dict) and '$str' in text:
            text = ''.join(chr(c) for c in text['$str'])
        eng = dict({'legacy': mon.leg, 'delegates': mon.deleg}, **dict(mon.flavours)).get(data.get('engine'), mon.eng)
        out = mon.check(text, 'replay', eng, data.get('engine', 'default'))
        print('text=%r -> outcome=%s' % (text[:300], out))
    finally:
        mon.close()
