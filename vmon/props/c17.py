"""C17 - context trees resolve variables and functions layer by layer.

Oracle: vmon.model.contexts (flattened layers).  Workload: random forests of
plain / multi / linked contexts and operation histories; after every step ALL
reads (ctx[name], name in ctx, keys, get_functions, collect_functions, fd in
ctx) on ALL contexts are compared with the model.
"""
from yaql.language import contexts as yctx
from yaql.language import specs as yspecs

from vmon import hooks
from vmon.core import rng_for
from vmon.model import contexts as mc

RULE = ('a case is one step of an operation history on a forest (set, delete, child creation, multi/linked '
        'construction, register with/without exclusive, delete_function) followed by the full read matrix on every '
        'context; distinct by (forest shape signature, history prefix); non-trivial = the forest contains at least '
        'one multi or linked context at that step')
ASSUMPTIONS = [
    'deletions are generated only when they are clean (every targeted storage has the key) or fail at the first '
    'target, and delete_function only for names not registered exclusively in the targeted storages: the statement '
    'does not fix partial deletions or the fate of exclusivity after a removal',
    'children of a linked context are created only when the linked context is a plain Context',
]
REQUIRED = {'reads.compared': 10000, 'steps': 500, 'kind.multi': 10, 'kind.linked': 10,
            'reach.Context.get_data': 100, 'reach.MultiContext.get_data': 50, 'reach.LinkedContext.get_data': 50,
            'reach.ContextBase.collect_functions': 100, 'reach.MultiContext.get_functions': 50,
            'reach.LinkedContext.get_functions': 50, 'op.register_exclusive': 5, 'op.delete': 5,
            'op.delete_function': 5}

VAR_NAMES = ['$', '$1', '', 'a', '$a', 'b', '$b']
FUNC_NAMES = ['f', 'g', 'h']
LOOKUP_FUNC_NAMES = ['f', 'g', 'h', 'f_', 'g__', 'zz']


class Pair:
    def __init__(self, real, model, desc):
        self.real = real
        self.model = model
        self.desc = desc


class World:
    def __init__(self, rec, rng, log):
        self.rec = rec
        self.rng = rng
        self.pairs = []
        self.log = log          # list of op records (for replay)
        self.fds = {}           # id -> (fd, name)
        for fname, n in (('f', 2), ('g', 3), ('h', 1)):
            for i in range(n):
                fd = yspecs.FunctionDefinition(fname, (lambda tag: (lambda: tag))('%s%d' % (fname, i)))
                self.fds['%s%d' % (fname, i)] = (fd, fname)
        self.counter = 0

    def fd_ids(self, real_fds):
        rev = {id(fd): k for k, (fd, n) in self.fds.items()}
        return {rev.get(id(x), '?%r' % (x,)) for x in real_fds}

    # ---- constructors ------------------------------------------------------
    def apply(self, op):
        """op: JSON-able list; returns False if not applicable"""
        kind = op[0]
        P = self.pairs
        if kind == 'root':
            self.add(yctx.Context(), mc.Plain(), 'root')
        elif kind == 'root_data':
            self.add(yctx.Context(data=op[1]), self._with_data(mc.Plain(), op[1]), 'root_data')
        elif kind == 'child':
            p = P[op[1]]
            real = p.real.create_child_context()
            if p.model.kind == 'plain':
                model = mc.Plain(p.model)
            elif p.model.kind == 'multi':
                model = mc.Plain(p.model)
            else:
                model = mc.Plain(p.model)
            self.add(real, model, 'child(%d)' % op[1])
        elif kind == 'plain_of':
            p = P[op[1]]
            self.add(yctx.Context(p.real), mc.Plain(p.model), 'Context(%d)' % op[1])
        elif kind == 'plain_of_data':
            p = P[op[1]]
            self.add(yctx.Context(p.real, data=op[2]), self._with_data(mc.Plain(p.model), op[2]),
                     'Context(%d, data)' % op[1])
        elif kind == 'multi':
            ms = [P[i] for i in op[1]]
            self.add(yctx.MultiContext([m.real for m in ms]), mc.Multi([m.model for m in ms]), 'multi%r' % (op[1],))
        elif kind == 'linked':
            parent, linked = P[op[1]], P[op[2]]
            self.add(yctx.LinkedContext(parent.real, linked.real), mc.Linked(parent.model, linked.model),
                     'linked(%d,%d)' % (op[1], op[2]))
        elif kind == 'set':
            p = P[op[1]]
            p.real[op[2]] = op[3]
            mc.set_var(p.model, op[2], op[3])
        elif kind == 'del':
            p = P[op[1]]
            real_exc = model_exc = None
            try:
                del p.real[op[2]]
            except KeyError:
                real_exc = 'KeyError'
            try:
                mc.del_var(p.model, op[2])
            except KeyError:
                model_exc = 'KeyError'
            if real_exc != model_exc:
                self.rec.violation('delete-outcome-differs:%s' % p.model.kind,
                                   'del ctx[%r] on %s: real %r, model %r' % (op[2], p.desc, real_exc, model_exc),
                                   {'ops': self.log})
        elif kind == 'reg':
            p = P[op[1]]
            fd, fname = self.fds[op[2]]
            try:
                if op[3]:
                    p.real.register_function(fd, exclusive=True)
                else:
                    p.real.register_function(fd)
            except Exception as e:
                self.rec.violation('operation-raises:register_function:%s' % p.model.kind,
                                   'register_function(%s, exclusive=%r) on %s raised %r' % (op[2], op[3], p.desc, e),
                                   {'ops': self.log})
                return True
            mc.register(p.model, op[2], fname, op[3])
        elif kind == 'delfn':
            p = P[op[1]]
            fd, fname = self.fds[op[2]]
            try:
                p.real.delete_function(fd)
            except Exception as e:
                # removal concerns the context's own storage; a definition it does not hold leaves the history
                # going (the model's delete_function is a no-op there)
                self.rec.violation('operation-raises:delete_function:%s' % p.model.kind,
                                   'delete_function(%s) on %s raised %r' % (op[2], p.desc, e), {'ops': self.log})
                return True
            mc.delete_function(p.model, op[2], fname)
        else:
            raise ValueError(kind)
        self.rec.count('op.' + ('register_exclusive' if kind == 'reg' and op[3] else
                                'delete' if kind == 'del' else 'delete_function' if kind == 'delfn' else kind))
        return True

    def _with_data(self, model, data):
        mc.set_var(model, '$', data)
        return model

    def add(self, real, model, desc):
        self.pairs.append(Pair(real, model, '#%d:%s' % (len(self.pairs), desc)))
        self.rec.count('kind.' + model.kind)

    # ---- choose a random applicable op ------------------------------------------
    def random_op(self):
        rng = self.rng
        P = self.pairs
        n = len(P)
        for _ in range(50):
            r = rng.random()
            if r < (0.5 if n < 4 else 0.1) and n < 9:
                k = rng.random()
                if k < 0.35:
                    i = rng.randrange(n)
                    m = P[i].model
                    if m.kind == 'linked' and m.linked.kind != 'plain':
                        continue
                    return ['child', i]
                if k < 0.45:
                    return ['plain_of', rng.randrange(n)]
                if k < 0.5:
                    return ['plain_of_data', rng.randrange(n), rng.choice((0, 'dv', None))]
                if k < 0.75:
                    return ['multi', [rng.randrange(n) for _ in range(rng.choice((1, 2, 2, 3)))]]
                if k < 0.95:
                    return ['linked', rng.randrange(n), rng.randrange(n)]
                return ['root'] if rng.random() < 0.5 else ['root_data', rng.choice((1, 'rd'))]
            i = rng.randrange(n)
            p = P[i]
            if r < 0.45:
                self.counter += 1
                return ['set', i, rng.choice(VAR_NAMES), rng.choice((self.counter, 'v%d' % self.counter, None, False))]
            if r < 0.6:
                name = rng.choice(VAR_NAMES)
                k = mc.norm(name)
                targets = p.model.delete_targets()
                have = [k in st.data for st in targets]
                if all(have) or not have[0]:
                    # also require no storage to be targeted twice (a diamond would make the 2nd deletion fail)
                    if len({id(t) for t in targets}) == len(targets) or not have[0]:
                        return ['del', i, name]
                continue
            if r < 0.85:
                fid = rng.choice(sorted(self.fds))
                return ['reg', i, fid, rng.random() < 0.2]
            fid = rng.choice(sorted(self.fds))
            fname = self.fds[fid][1]
            if any(fname in st.exclusive for st in p.model.delete_targets()):
                continue
            return ['delfn', i, fid]
        return ['set', 0, 'a', 0]

    # ---- the read matrix ---------------------------------------------------------
    def compare_all(self, step):
        rec = self.rec
        nreads = 0
        for p in self.pairs:
            real, model = p.real, p.model
            for name in VAR_NAMES + ['zz', '$zz']:
                nreads += 2
                got, want = real[name], model.get(name)
                if got != want or type(got) is not type(want):
                    self.bad('variable-read', p, 'ctx[%r] = %r, model %r' % (name, got, want), step)
                got, want = name in real, model.has(name)
                if got != want:
                    self.bad('membership', p, '%r in ctx = %r, model %r' % (name, got, want), step)
            nreads += 1
            got, want = sorted(real.keys()), model.keys()
            if got != want:
                self.bad('keys', p, 'keys() = %r, model %r' % (got, want), step)
            for fname in LOOKUP_FUNC_NAMES:
                nreads += 2
                fds, excl = real.get_functions(fname)
                got = (self.fd_ids(fds), bool(excl))
                want = model.get_functions(fname)
                if got != (want[0], want[1]):
                    self.bad('get_functions', p, 'get_functions(%r) = %r, model %r' % (fname, got, want), step)
                got = [self.fd_ids(layer) for layer in real.collect_functions(fname)]
                want = model.collect_functions(fname)
                if got != want:
                    self.bad('collect_functions', p, 'collect_functions(%r) = %r, model %r' % (fname, got, want), step)
            for fid, (fd, fname) in self.fds.items():
                nreads += 1
                got, want = fd in real, model.has_fd(fid, fname)
                if got != want:
                    self.bad('function-membership', p, '%s in ctx = %r, model %r' % (fid, got, want), step)
            nreads += 1
            if (3 in real) is not False:
                self.bad('membership', p, 'a non-string, non-function object is reported as contained', step)
        rec.count('reads.compared', nreads)

    def bad(self, what, p, detail, step):
        self.rec.violation('%s-differs-from-layer-model:%s' % (what, p.model.kind),
                           'after step %d on context %s: %s' % (step, p.desc, detail),
                           {'ops': list(self.log)})


def run_history(rec, rng, nsteps, ops=None):
    log = []
    w = World(rec, rng, log)
    first = ops[0] if ops else ['root']
    log.append(first)
    w.apply(first)
    step = 0
    nontrivial_seen = False
    while step < nsteps:
        step += 1
        op = ops[step] if ops else w.random_op()
        log.append(op)
        w.apply(op)
        w.compare_all(step)
        rec.count('steps')
        nontrivial_seen = nontrivial_seen or any(p.model.kind != 'plain' for p in w.pairs)
        rec.case(('history', repr(log)), nontrivial=nontrivial_seen)
        if ops and step >= len(ops) - 1:
            break
    return w, log


def plan(tier, seed):
    n = 16
    per = 150 if tier == 'quick' else 2500
    return [{'name': 'forests-%d' % p, 'kind': 'forests', 'count': per, 'steps': 30 if tier == 'quick' else 40,
             'timeout': 3000} for p in range(n)]


def _reach():
    r = hooks.Reach()
    for cls in (yctx.Context, yctx.MultiContext, yctx.LinkedContext):
        for m in ('get_data', 'get_functions', '__contains__', 'keys', '__init__', '__setitem__', '__delitem__',
                  'register_function', 'delete_function', 'create_child_context'):
            f = cls.__dict__.get(m)
            if f is not None:
                r.watch(f, '%s.%s' % (cls.__name__, m))
    r.watch(yctx.ContextBase.collect_functions, 'ContextBase.collect_functions')
    return r.start()


def run_shard(spec, rec):
    reach = _reach()
    try:
        rng = rng_for(spec['seed'], 'c17', spec['name'])
        for i in range(spec['count']):
            w, log = run_history(rec, rng, spec['steps'])
            if i % 10 == 0:
                rec.sample({'forest': [p.desc for p in w.pairs], 'history': log[:12]})
    finally:
        reach.flush(rec)
        reach.stop()


def replay(data, rec):
    ops = data['ops']
    reach = _reach()
    try:
        w, log = run_history(rec, rng_for(0, 'replay'), len(ops), ops=ops)
        print('forest: %s' % [p.desc for p in w.pairs])
    finally:
        reach.stop()


def selftest():
    mc.selftest()
