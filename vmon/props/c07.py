"""C07 - expressions cannot reach host objects except through granted members.

Monitors: a canary host object whose __getattribute__/__getitem__/__call__
log every touch (with the yaql code site that made it) and whose fields carry
a per-run secret marker that is searched in every result and exception text;
a yaqlized probe whose logged member touches are compared with an independent
policy model for every yaqlization setting x member name x access form.
"""
import re

import yaql
from yaql import yaqlization
from yaql.standard_library import system as ysystem
from yaql.standard_library import yaqlized as yyaqlized

from vmon import catalogue as cat
from vmon import hooks
from vmon import yq
from vmon.core import rng_for

RULE = ('a case is (expression, placement of the canary / yaqlization setting, member name, access form); distinct by '
        'that tuple; non-trivial = the expression parsed and the evaluation handed the canary or probe to the '
        'interpreter (infrastructure type-check reads were observed)')
ASSUMPTIONS = [
    'reads of __class__, __yaqlization__ and __unwrapped__ are the interpreter\'s own type checks, not member access',
    'protocol calls through type slots (__eq__, __hash__, __str__ of a default object) are not member access',
    'when a name is both whitelisted and blacklisted the outcome is not judged (the documentation does not order them)',
    'engines/contexts created with delegates explicitly grant calling callables; __call__ is judged in default mode',
]
REQUIRED = {'canary.cases': 1000, 'canary.infrastructure_reads': 500, 'policy.cases': 2000, 'policy.allowed': 200,
            'policy.denied': 500, 'reach._validate_name': 500, 'reach._remap_name': 100, 'reach.check_value': 1000,
            'reach.get_property': 50, 'reach.call_func': 50, 'names.*': 150}

MARKER = 'S3CR3T-MARKER-7f3a9'
INFRA = {'__class__', '__yaqlization__', '__unwrapped__'}


class TouchLog:
    def __init__(self):
        self.attrs = []
        self.items = []
        self.calls = []
        self.protocol = []
        self.infra = 0

    def reset(self):
        self.attrs, self.items, self.calls, self.protocol, self.infra = [], [], [], [], 0


LOG = TouchLog()


class Canary:
    """a host object that was NOT yaqlized"""
    cls_secret = MARKER + '-class'

    def __init__(self):
        object.__setattr__(self, 'secret', MARKER + '-attr')
        object.__setattr__(self, '_hidden', MARKER + '-hidden')

    def __getattribute__(self, name):
        if name in INFRA:
            LOG.infra += 1
        else:
            LOG.attrs.append((name, hooks.yaql_site(2)))
        return object.__getattribute__(self, name)

    def reveal(self, *a, **kw):
        return MARKER + '-method'

    def __getitem__(self, key):
        LOG.items.append((repr(key)[:40], hooks.yaql_site(2)))
        return MARKER + '-item'

    def __call__(self, *a, **kw):
        LOG.calls.append(('__call__', hooks.yaql_site(2)))
        return MARKER + '-call'

    # explicitly not iterable: with __getitem__ alone Python's sequence-protocol fallback would make the canary an
    # (endless) collection, and iterating host collections is data access, not member access
    __iter__ = None


class PlainCanary(Canary):
    """same, but not callable and not indexable (isolates attribute reads)"""
    __call__ = None
    __getitem__ = None


@__import__('dataclasses').dataclass(eq=False, repr=False)
class DataCanary(PlainCanary):
    """a non-yaqlized host object whose class is a dataclass: its fields are as unreachable as any attribute"""
    secret: str = MARKER + '-attr'
    _hidden: str = MARKER + '-hidden'
    label: str = MARKER + '-field'

    def __post_init__(self):
        pass


class RecordCanary(PlainCanary):
    """a non-yaqlized host object that looks like a record (_fields / _asdict / keys / items / to_dict / __slots__-like
    helpers) without being a tuple or a Mapping"""
    _fields = ('secret', 'label')

    def _asdict(self):
        LOG.calls.append(('_asdict', hooks.yaql_site(2)))
        return {'secret': MARKER + '-asdict'}

    def keys(self):
        LOG.calls.append(('keys', hooks.yaql_site(2)))
        return ['secret']

    def items(self):
        LOG.calls.append(('items', hooks.yaql_site(2)))
        return [('secret', MARKER + '-items')]

    def to_dict(self):
        LOG.calls.append(('to_dict', hooks.yaql_site(2)))
        return {'secret': MARKER + '-to_dict'}
    __json__ = to_dict


SHAPED = (DataCanary, RecordCanary)


def _proto(name, result):
    def method(self, *a, **kw):
        LOG.protocol.append((name, hooks.yaql_site(2)))
        return result(self) if callable(result) else result
    method.__name__ = name
    return method


class ProtoCanary(PlainCanary):
    """a non-yaqlized host object that implements Python's ordering, arithmetic, size and formatting protocols:
    implicit (operator / builtin) invocations of its methods are method calls on the object as well.  __eq__,
    __hash__, __bool__, __str__ and __repr__ are left alone: generic functions (=, dict keys, not, str) use them on
    any value, which the statement does not forbid; likewise the conversion protocol (__int__, __float__, __index__, __format__)
    behind the generic conversion functions int(), float() and message formatting."""

    def __bool__(self):
        return True
    for _n, _r in (('__lt__', True), ('__le__', True), ('__gt__', False), ('__ge__', False),
                   ('__add__', MARKER + '-add'), ('__radd__', MARKER + '-add'), ('__sub__', 1), ('__rsub__', 1),
                   ('__mul__', MARKER + '-mul'), ('__rmul__', MARKER + '-mul'), ('__truediv__', 1), ('__rtruediv__', 1),
                   ('__floordiv__', 1), ('__rfloordiv__', 1), ('__mod__', 1), ('__rmod__', 1), ('__neg__', 1), ('__pos__', 1),
                   ('__abs__', 1), ('__round__', 1), ('__len__', 1), ('__contains__', True),
                   ('__and__', 1), ('__or__', 1), ('__xor__', 1), ('__invert__', 1), ('__lshift__', 1), ('__rshift__', 1)):
        locals()[_n] = _proto(_n, _r)
    del _n, _r


class Child:
    def __init__(self):
        self.pub = 'CHILD-PUB'

    def __getattribute__(self, name):
        if name in INFRA:
            LOG.infra += 1
        else:
            LOG.attrs.append(('child.' + name, hooks.yaql_site(2)))
        return object.__getattribute__(self, name)


class SlotChild:
    """an object that cannot carry a per-instance marker"""
    __slots__ = ('pub',)

    def __init__(self):
        object.__setattr__(self, 'pub', 'SLOT-PUB')

    def __getattribute__(self, name):
        if name in INFRA:
            LOG.infra += 1
        else:
            LOG.attrs.append(('slot.' + name, hooks.yaql_site(2)))
        return object.__getattribute__(self, name)


class EqChild:
    """instances compare and hash equal to one another (a value-like host class)"""

    def __init__(self):
        object.__setattr__(self, 'pub', 'EQ-PUB')

    def __eq__(self, other):
        return type(other) is EqChild

    def __hash__(self):
        return 17

    def __getattribute__(self, name):
        if name in INFRA:
            LOG.infra += 1
        else:
            LOG.attrs.append(('eq.' + name, hooks.yaql_site(2)))
        return object.__getattribute__(self, name)


class Probe:
    """a yaqlized host object"""

    def __init__(self):
        d = object.__getattribute__(self, '__dict__')
        d.update(pub='PUB', other='OTHER', target='TARGET', _priv='PRIV', child=Child())

    def __getattribute__(self, name):
        if name in INFRA:
            LOG.infra += 1
        else:
            LOG.attrs.append((name, hooks.yaql_site(2)))
        return object.__getattribute__(self, name)

    def meth(self, x=0):
        return 'METH%s' % x

    def _pmeth(self):
        return 'PMETH'

    def __getitem__(self, key):
        LOG.items.append((key, hooks.yaql_site(2)))
        return 'ITEM:%s' % (key,)


def scan_value(obj, value, depth=0):
    if depth > 6:
        return False
    if isinstance(obj, str):
        return value in obj
    if isinstance(obj, dict):
        return any(scan_value(v, value, depth + 1) for v in obj.values())
    if isinstance(obj, (list, tuple, set, frozenset)):
        return any(scan_value(x, value, depth + 1) for x in obj)
    return False


def scan(obj, depth=0):
    """does the marker occur anywhere in a result / exception text?"""
    if depth > 8:
        return False
    if isinstance(obj, str):
        return MARKER in obj
    if isinstance(obj, dict):
        return any(scan(k, depth + 1) or scan(v, depth + 1) for k, v in obj.items())
    if isinstance(obj, (list, tuple, set, frozenset)):
        return any(scan(x, depth + 1) for x in obj)
    if isinstance(obj, BaseException):
        return MARKER in str(obj) or MARKER in repr(obj)
    return False


class Mon:
    def __init__(self, rec):
        self.rec = rec
        opts = {'yaql.limitIterators': 200, 'yaql.memoryQuota': 2000000}
        self.eng = yq.engine(opts)
        self.eng_deleg = yq.engine(opts, allow_delegates=True)
        self.ctx = yaql.create_context()
        self.ctx_nodeleg = self.ctx
        self.overloads = cat.build(self.ctx)
        self.reach = hooks.Reach()
        self.reach.watch(yyaqlized._validate_name, '_validate_name')
        self.reach.watch(yyaqlized._remap_name, '_remap_name')
        self.reach.watch(ysystem.get_property, 'get_property')
        self.reach.watch(ysystem.call_func, 'call_func')
        for const in yyaqlized.Yaqlized.__init__.__code__.co_consts:
            if hasattr(const, 'co_name') and const.co_name == 'check_value':
                self.reach.watch(const, 'check_value')
        self.reach.start()
        self.stmts = {}

    def close(self):
        self.reach.flush(self.rec)
        self.reach.stop()

    def stmt(self, eng, text):
        key = (id(eng), text)
        if key not in self.stmts:
            try:
                self.stmts[key] = eng(text)
            except Exception as e:
                self.stmts[key] = e
        return self.stmts[key]

    def run(self, text, vars_, eng=None):
        eng = eng or self.eng
        st = self.stmt(eng, text)
        if isinstance(st, Exception):
            return ('parse-error', st)
        ctx = self.ctx.create_child_context()
        for k, v in vars_.items():
            ctx[k] = v
        LOG.reset()
        try:
            return ('value', st.evaluate(context=ctx))
        except Exception as e:
            return ('exc', e)

    # ---- canary -----------------------------------------------------------------------------
    def canary_case(self, text, vars_, where, eng=None, replay=None):
        rec = self.rec
        out = self.run(text, vars_, eng)
        rec.count('canary.cases')
        rec.count('canary.infrastructure_reads', LOG.infra)
        rec.case(('canary', text, where), nontrivial=out[0] != 'parse-error' and LOG.infra > 0)
        if out[0] == 'parse-error':
            rec.count('canary.parse_errors')
            return out
        rp = replay or {'kind': 'canary', 'text': text, 'where': where}
        for name, site in LOG.attrs:
            kind = 'underscore-member' if name.startswith('_') else 'attribute'
            rec.violation('host-object-touched:%s:by=%s' % (kind, site),
                          '%s read attribute %r of a non-yaqlized host object (from %s; canary at %s)' % (text, name, site, where), rp)
        for key, site in LOG.items:
            rec.violation('host-object-touched:index:by=%s' % site,
                          '%s indexed a non-yaqlized host object with %s (from %s; canary at %s)' % (text, key, site, where), rp)
        for name, site in LOG.calls:
            rec.violation('host-object-touched:__call__:by=%s:via=%s' % (site, 'call()' if 'call(' in text else 'expression'),
                          '%s called a non-yaqlized host object (from %s; canary at %s)' % (text, site, where), rp)
        for name, site in LOG.protocol:
            rec.violation('host-object-touched:protocol:%s:by=%s' % (name, site),
                          '%s invoked %s of a non-yaqlized host object (from %s; canary at %s)' % (text, name, site, where), rp)
        leaked = scan(out[1])
        if leaked and not (LOG.attrs or LOG.items or LOG.calls or LOG.protocol):
            rec.violation('secret-leaked-without-logged-touch', '%s produced the secret marker in %r' % (text, out[1]), rp)
        elif leaked:
            rec.count('canary.marker_in_output')
        return out


# ---- policy model (from the yaqlized module docstring and yaqlization.py) ---------------------------

def match(name, entry):
    if isinstance(entry, str):
        return name == entry
    if hasattr(entry, 'search'):
        return entry.search(name) is not None
    if callable(entry):
        return bool(entry(name))
    return False


def model_access(settings, form, name):
    """-> ('denied',) | ('unspecified',) | ('reach', member name, form)"""
    switch = {'attr': settings['attributes'], 'method': settings['methods'], 'index': settings['indexer']}[form]
    if not switch:
        return ('denied',)
    if not isinstance(name, str):
        return ('denied',)
    if name.startswith('_'):
        return ('denied',)
    blacklist = list(settings['blacklist'])
    for target in settings['remapping'].values():
        blacklist.append(target if isinstance(target, str) else target[0])
    white = settings['whitelist']
    in_white = any(match(name, e) for e in white)
    in_black = any(match(name, e) for e in blacklist)
    if white:
        if not in_white:
            return ('denied',)
        if in_black:
            return ('unspecified',)
    elif in_black:
        return ('denied',)
    if form == 'index':
        return ('reach', name, form)
    target = settings['remapping'].get(name, name)
    if not isinstance(target, str):
        if form == 'attr':
            return ('unspecified',)     # (name, argument mapping) remappings are defined for method calls
        target = target[0]
    return ('reach', target, form)


WHITELISTS = {'none': [], 'string': ['pub', 'meth', 'alias'], 'regex': [re.compile('^(pub|meth|alias|chi)')],
              'predicate': [lambda n: n in ('pub', 'meth', 'alias', 'target')],
              # entries that also match private names: the underscore rule must hold whatever the whitelist says
              'regex-broad': [re.compile('p')], 'predicate-all': [lambda n: True], 'regex-middle': [re.compile('ub|eth|lias')],
              'string-private': ['_priv', '_pmeth', 'pub', '__class__'],
              # string entries are names, not patterns: these match no member of the probe
              'string-meta': ['pu.', 'oth.*', 'met[h]', 'p|ub', '(pub)', 'target$x'],
              # a whitelist whose only entry is also refused as a remapping target: still a whitelist
              'string-target': ['target']}
BLACKLISTS = {'none': [], 'string': ['other', 'meth'], 'regex': [re.compile('oth|^met')],
              # unanchored entries match anywhere in the name (re.search semantics of the documentation's examples)
              'regex-middle': [re.compile('the|et')],
              'string-meta': ['oth.r', 'met.', '.*', 'pub|other', 'target\n'],
              'predicate': [lambda n: n.startswith('o') or n == 'pub']}
REMAPPINGS = {'none': {}, 'name': {'alias': 'target'}, 'name+args': {'alias': ('meth', {'y': 'x'})},
              'shadow': {'pub': 'other'}}
NAMES = ['pub', 'other', 'target', 'meth', 'alias', '_priv', '_pmeth', 'zz', 'child', '__class__', '__dict__', '_']


def policy_cases():
    for attrs in (True, False):
        for meths in (True, False):
            for idx in (True, False):
                for wl in WHITELISTS:
                    for bl in BLACKLISTS:
                        for rm in REMAPPINGS:
                            yield {'attributes': attrs, 'methods': meths, 'indexer': idx, 'wl': wl, 'bl': bl, 'rm': rm}


def build_probe(cfg, auto=False):
    p = Probe()
    yaqlization.yaqlize(p, yaqlize_attributes=cfg['attributes'], yaqlize_methods=cfg['methods'],
                        yaqlize_indexer=cfg['indexer'], auto_yaqlize_result=auto,
                        whitelist=list(WHITELISTS[cfg['wl']]), blacklist=list(BLACKLISTS[cfg['bl']]),
                        attribute_remapping=dict(REMAPPINGS[cfg['rm']]))
    settings = {'attributes': cfg['attributes'], 'methods': cfg['methods'], 'indexer': cfg['indexer'],
                'whitelist': WHITELISTS[cfg['wl']], 'blacklist': BLACKLISTS[cfg['bl']], 'remapping': REMAPPINGS[cfg['rm']]}
    return p, settings


def access_text(form, name):
    dunder = name.startswith('__')
    if form == 'attr':
        return '$p.%s' % name        # dunder names: the lexer must refuse them (counted as denied)
    if form == 'method':
        return '$p.%s()' % name
    if form == 'proj':
        return '[$p].%s' % name      # the member projected out of a collection holding the object
    if form == 'proj-host':
        return '$ps.%s' % name
    return "$p['%s']" % name if (dunder or name in ('zz', '_')) else '$p[%s]' % name


def policy_check(mon, cfg, form, name, rec):
    text = access_text(form, name)
    if text is None:
        return
    p, settings = build_probe(cfg)
    shown = form
    if form in ('proj', 'proj-host'):
        form = 'attr'
    want = model_access(settings, form, name)
    out = mon.run(text, {'p': p, 'ps': [p]})
    if shown != form and out[0] == 'value' and isinstance(out[1], (list, tuple)) and len(out[1]) == 1:
        out = ('value', out[1][0])
    form = shown
    rec.count('policy.cases')
    key = ('policy', tuple(sorted((k, str(v)) for k, v in cfg.items())), form, name)
    if out[0] == 'parse-error':
        LOG.reset()
        rec.count('policy.refused_by_lexer')
        rec.case(key, nontrivial=False)
        if not name.startswith('__'):
            rec.inconc('policy access %r does not parse' % text)
        return
    rec.case(key, nontrivial=LOG.infra > 0)
    touched_attrs = [n for n, s in LOG.attrs]
    touched_items = [k for k, s in LOG.items]
    rp = {'kind': 'policy', 'cfg': cfg, 'form': form, 'name': name}
    desc = '%s with settings %r' % (text, cfg)
    if want[0] == 'unspecified':
        rec.count('policy.unspecified')
        return
    if want[0] == 'denied':
        rec.count('policy.denied')
        if touched_attrs or touched_items:
            kind = 'underscore-member' if name.startswith('_') else 'denied-member'
            rec.violation('yaqlized-policy:%s-reached:%s' % (kind, form),
                          '%s: the settings deny %r but the object was touched: attrs %r items %r' % (
                              desc, name, touched_attrs, touched_items), rp)
        elif out[0] == 'value':
            rec.violation('yaqlized-policy:denied-access-returned-value:%s' % form,
                          '%s: the settings deny %r but the evaluation returned %r' % (desc, name, out[1]), rp)
        return
    rec.count('policy.allowed')
    member = want[1]
    if form == 'index':
        ok = touched_items == [member] and not touched_attrs
    else:
        ok = touched_attrs == [member] and not touched_items
    if not ok:
        rec.violation('yaqlized-policy:wrong-member-reached:%s' % form,
                      '%s: the settings grant %r -> member %r, but attrs touched %r, items touched %r (outcome %r)' % (
                          desc, name, member, touched_attrs, touched_items, out), rp)
        return
    exists = member in ('pub', 'other', 'target', 'meth', 'child') or form == 'index'
    if exists and out[0] != 'value' and not (form == 'method' and member not in ('meth',)) and not (
            form == 'attr' and False):
        rec.violation('yaqlized-policy:granted-access-failed:%s' % form,
                      '%s: the settings grant %r but the evaluation raised %r' % (desc, name, out[1]), rp)
    elif out[0] == 'value':
        expect = {'pub': 'PUB', 'other': 'OTHER', 'target': 'TARGET'}.get(member)
        if form == 'index':
            expect = 'ITEM:%s' % member
        elif form == 'method':
            expect = 'METH0' if member == 'meth' else None
        if expect is not None and out[1] != expect:
            rec.violation('yaqlized-policy:wrong-value:%s' % form, '%s returned %r, the member holds %r' % (desc, out[1], expect), rp)


# ---- workloads ---------------------------------------------------------------------------------------

ATTACK_STRINGS = ['{0.secret}', '%(secret)s', '__class__', '__dict__', '{0:{0.secret}}', '{0:{1.secret}}', '{1:{0.secret}}{0}', '{0[secret]}',
                  '{0!r:{0.secret}}', 'secret', '_hidden', '{0.__class__}', '%s']
N_POSITION_ATTACKS = 9

DIRECT_FORMS = [
    '$c.secret', '$c.reveal()', '$c?.secret', '$c?.reveal()', '$c[secret]', "$c['__class__']", '$c._hidden',
    "$c['secret']", '$c[0]', '$c.secret.len()', '[$c].secret', '[$c].select($.secret)', '[$c].select($.reveal())',
    '{k => $c}.k.secret', '{k => $c}.k.reveal()', '{k => $c}.get(k).secret', '[$c][0].secret', '[[$c]].secret',
    '$c.cls_secret', '$c.__class__', '$c.__dict__', '$.secret', '$c -> $.secret', 'let(x => $c) -> $x.secret',
    '[$c].where($.secret = 1)', '[$c].orderBy($.secret)', '[$c].toDict($.secret)', '[$c].groupBy($.secret)',
    '$c.secret()', '$c.toString()', 'str($c)', "'{0.secret}'.replace('x', str($c))", '$c.yaqlization', '$c.len()',
    "call(secret, [$c], {})", "call('reveal', [], {}, $c)", "call('#operator_.', [$c, secret], {})",
    "call('#indexer', [$c, secret], {})", "call(str, [$c], {})", "call(select, [[1], $c], {})",
    "call(coalesce, [$c], {})", "call(generate, [0, $c, $c], {})", "call(where, [[1], $c], {})",
    "call(let, [], {secret => $c}) -> $secret.secret", "call(def, [f, $c], {}) -> f(1)", "call(orderBy, [[2, 1], $c], {})",
    "call(assert, [1, $c], {})", "call(switchCase, [0, $c], {})", "call(selectCase, [1, $c], {})",
    "call(aggregate, [[1, 2], $c], {})", "call(toDict, [[1], $c], {})", "call(groupBy, [[1], $c], {})",
    "call(replaceBy, [regex('a'), 'a', $c], {})", "call(search, [regex('a'), 'a', $c], {})",
    "call(mergeWith, [{a => [1]}, {a => [2]}, $c], {})", "call('#operator_and', [$c, $c], {})",
    "call('#operator_->', [let(), $c], {})", "call(takeWhile, [[1], $c], {})", "call(indexWhere, [[1], $c], {})",
    '$c()', '$c(1)', '$c.secret(1)', 'lambda($.secret)($c)',
    # string arguments that are templates over the receiver, on paths that only run when something fails
    "$c.assert(false, '{0.secret}')", "$c.assert(false, '{0[secret]}')", "$c.assert(false, '%(secret)s')",
    "$c.assert($ = null, '{0.__class__.__name__}')", "$c.assert(false, message => '{0._hidden}')",
    "[$c].select($.assert(false, '{0.secret}'))", "$c.assert(true, '{0.secret}')", "assert($c, false, '{0.secret}')",
    "'{0.secret}'.replace('x', 'y') + str($c)", "'%s' .replace('%s', str($c))", "[$c].join('{0.secret}')",
    "'{0.secret}'.join([$c])", "$c.toString('{0.secret}')", "str($c).indexOf('{0.secret}')",
    "datetime(2020, 1, 1).format('{0.secret}')", "coalesce($c.secret, '{0.secret}')", "switch($c => '{0.secret}')",
    "[1, 2].orderBy($c)", "[$c, $c].orderBy($)", "[$c, $c].distinct()", "[$c].toDict($)", "{$c => 1}.keys()",
    "set($c, $c).len()", "$c in [$c]", "[$c].indexOf($c)", "[$c].contains($c)", "max($c, $c)", "[$c, $c].sum()",
    "$c < $c", "$c = $c", "not $c", "bool($c)", "int($c)", "float($c)", "hex($c)", "abs($c)", "len($c)", "$c.len()",
]


def canary_positions(mon):
    for o in mon.overloads:
        if o.syntax[0] in ('var', 'internal'):
            continue
        base = cat.basic_args(o)
        if base is None:
            continue
        n = len(base)
        for i in range(n):
            yield o, i, base


def plan(tier, seed):
    thorough = tier == 'thorough'
    parts = 8
    shards = [{'name': 'positions-%d' % p, 'kind': 'positions', 'part': p, 'parts': parts} for p in range(parts)]
    shards.append({'name': 'direct', 'kind': 'direct'})
    for p in range(8):
        shards.append({'name': 'policy-%d' % p, 'kind': 'policy', 'part': p, 'parts': 8})
    for p in range(8 if thorough else 1):
        shards.append({'name': 'compose-%d' % p, 'kind': 'compose', 'count': 25000 if thorough else 1500})
    return shards


def run_shard(spec, rec):
    mon = Mon(rec)
    try:
        globals()['_' + spec['kind']](spec, mon, rec)
    finally:
        mon.close()


def _positions(spec, mon, rec):
    idx = -1
    for o, i, base in canary_positions(mon):
        idx += 1
        if idx % spec['parts'] != spec['part']:
            continue
        rec.count('names.' + o.name)
        for canary_cls in (Canary, PlainCanary, ProtoCanary):
            for attack in (None,) + tuple(ATTACK_STRINGS[:N_POSITION_ATTACKS] if canary_cls is Canary else ()):
                args = list(base)
                args[i] = cat.var(cat.Fresh(canary_cls, 'CANARY'))
                if attack is not None:
                    # put an attack string into the first other var-kind string/any slot
                    for j, a in enumerate(args):
                        if j != i and a.kind == 'var' and isinstance(a.value, str):
                            args[j] = cat.var(attack)
                            break
                    else:
                        continue
                for form in ('function', 'method') if o.syntax[0] == 'call' else ('auto',):
                    if form == 'method' and not o.is_method:
                        continue
                    if form == 'function' and not o.is_function:
                        continue
                    r = cat.render(o, args, form=form)
                    if r is None:
                        continue
                    text, vars_ = r
                    vals = {k: cat.materialize(a) for k, a in vars_.items()}
                    where = '%s:arg%d' % (o.ident, i)
                    mon.canary_case(text, vals, where, replay={'kind': 'position', 'ident': o.ident, 'pos': i,
                                                               'text': text, 'cls': canary_cls.__name__, 'attack': attack})
                # the same call through call(name, args, kwargs) when no argument is textual
                if o.syntax[0] == 'call' and all(a.kind == 'var' for a in args) and attack is None:
                    vals = {'a%d' % j: cat.materialize(a) for j, a in enumerate(args)}
                    if o.is_function:
                        text = 'call(%s, [%s], {})' % (o.name, ', '.join('$a%d' % j for j in range(len(args))))
                        mon.canary_case(text, vals, '%s:arg%d:via-call' % (o.ident, i))
                    if o.is_method and len(args) >= 1:
                        text = 'call(%s, [%s], {}, $a0)' % (o.name, ', '.join('$a%d' % j for j in range(1, len(args))))
                        mon.canary_case(text, vals, '%s:arg%d:via-call-method' % (o.ident, i))
        if idx % 120 == 0:
            rec.sample({'kind': 'canary-position', 'text': text, 'where': '%s:arg%d' % (o.ident, i)})


def _direct(spec, mon, rec):
    for text in DIRECT_FORMS:
        for cls in (Canary, PlainCanary) + SHAPED:
            for eng, ename in ((mon.eng, 'default'), (mon.eng_deleg, 'delegate-syntax')):
                c = cls()
                out = mon.run(text, {'c': c}, eng)   # warm parse; judged below
                mon.canary_case(text, {'c': cls()}, 'direct:%s:%s' % (cls.__name__, ename), eng=eng,
                                replay={'kind': 'direct', 'text': text, 'cls': cls.__name__, 'engine': ename})
    # data passed as `$`
    for text in ('$.secret', '$.reveal()', '$[secret]', '$', '[$]', 'str($)', '$.c.secret', '$.c', '$.values().secret',
                 '$.values().select($.secret)', '$.label', '$.c.label', '$.get(secret)', '$.c.get(_hidden)', '$.c.values()',
                 '$.c.keys()', '$.c.items()', '$.c[secret]', 'dict($.c)', 'list($.c)', '$.c.len()', '$.c.toList()',
                 '[$.c].select($.label)', '$.c = $.c', '{a => $.c}', '[$.c, 1]', '$.c.containsKey(secret)', '$.c.secret'):
        for cls in (Canary, PlainCanary) + SHAPED:
            for data in (cls(), {'c': cls()}, [cls()]):
                st = mon.eng(text)
                LOG.reset()
                try:
                    out = ('value', st.evaluate(data=data, context=mon.ctx.create_child_context()))
                except Exception as e:
                    out = ('exc', e)
                rec.count('canary.cases')
                rec.count('canary.infrastructure_reads', LOG.infra)
                rec.case(('canary-data', text, cls.__name__, type(data).__name__), nontrivial=True)
                for name, site in LOG.attrs:
                    rec.violation('host-object-touched:attribute:by=%s' % site, '%s on data read %r of the canary' % (text, name),
                                  {'kind': 'direct', 'text': text, 'cls': cls.__name__, 'engine': 'default'})
                for key, site in LOG.items:
                    rec.violation('host-object-touched:index:by=%s' % site, '%s on data indexed the canary' % text,
                                  {'kind': 'direct', 'text': text, 'cls': cls.__name__, 'engine': 'default'})
                if scan(out[1]) and not (LOG.attrs or LOG.items or LOG.calls):
                    rec.violation('secret-leaked-without-logged-touch', '%s produced the marker: %r' % (text, out[1]),
                                  {'kind': 'direct', 'text': text, 'cls': cls.__name__, 'engine': 'default'})
    rec.sample({'kind': 'direct', 'texts': DIRECT_FORMS[:6]})


def _with(ctx, **vars_):
    for k, v in vars_.items():
        ctx[k] = v
    return ctx


def _policy(spec, mon, rec):
    idx = -1
    for cfg in policy_cases():
        idx += 1
        if idx % spec['parts'] != spec['part']:
            continue
        for form in ('attr', 'method', 'index', 'proj', 'proj-host'):
            for name in NAMES:
                policy_check(mon, cfg, form, name, rec)
        # keys that are not names (positions, null, booleans, structures) never reach a yaqlized object's
        # __getitem__: the whitelist/blacklist/underscore rules are stated for names
        for key_text in ('0', 'null', 'true', '1.5', '[1, 2]', '-1', '{a => 1}'):
            p, settings = build_probe(cfg)
            out = mon.run('$p[%s]' % key_text, {'p': p})
            rec.count('policy.cases')
            rec.count('policy.non_name_keys')
            rec.case(('policy-non-name-key', tuple(sorted((k, str(v)) for k, v in cfg.items())), key_text), nontrivial=True)
            touched = [k for k, s in LOG.items] + [n for n, s in LOG.attrs]
            if touched or out[0] == 'value':
                rec.violation('yaqlized-policy:non-name-key-reached:index',
                              '$p[%s] with settings %r: touches %r, outcome %r' % (key_text, cfg, touched, out),
                              {'kind': 'policy', 'cfg': cfg, 'form': 'index', 'name': key_text})
        if idx % 64 == 0:
            rec.sample({'kind': 'policy', 'settings': cfg, 'forms': ['$p.pub', '$p.meth()', '$p[pub]']})
    if spec['part'] == 0:
        _policy_extras(mon, rec)


def _policy_extras(mon, rec):
    # a context created without the yaqlized library grants nothing of a yaqlized object
    bare = yaql.create_context(yaqlized=False)
    cfg0 = {'attributes': True, 'methods': True, 'indexer': True, 'wl': 'none', 'bl': 'none', 'rm': 'none'}
    for text in ('$p.pub', '$p.meth()', '$p[pub]', '[$p].pub', '$ps.pub', '[$p].select($.pub)', '$ps.select($.meth())', '$p?.pub',
                 '$ps.where($.pub = 1)', '[$p, $p].orderBy($.pub)'):
        p, settings = build_probe(cfg0)
        LOG.reset()
        try:
            out = ('value', mon.eng(text).evaluate(context=_with(bare.create_child_context(), p=p, ps=[p])))
        except Exception as e:
            out = ('exc', e)
        touched = [n for n, s_ in LOG.attrs] + [k for k, s_ in LOG.items]
        rec.count('policy.cases')
        rec.count('policy.context_without_yaqlized_library')
        rec.case(('policy-no-yaqlized-library', text), nontrivial=True)
        if touched or out[0] == 'value':
            rec.violation('yaqlized-policy:reached-without-the-yaqlized-library',
                          '%s in a context created with yaqlized=False: touches %r, outcome %r' % (text, touched, out),
                          {'kind': 'policy-auto', 'auto': False})
    # auto-yaqlization of results and non-yaqlized children
    cfg = {'attributes': True, 'methods': True, 'indexer': True, 'wl': 'none', 'bl': 'none', 'rm': 'none'}
    for auto in (False, True):
        p, settings = build_probe(cfg, auto=auto)
        out = mon.run('$p.child.pub', {'p': p})
        child_touches = [n for n, s in LOG.attrs if n.startswith('child.')]
        rec.count('policy.cases')
        rec.case(('policy-auto', auto), nontrivial=True)
        if auto and not (out[0] == 'value' and out[1] == 'CHILD-PUB'):
            rec.violation('yaqlized-policy:auto-yaqlize-not-applied', '$p.child.pub with autoYaqlizeResult gave %r' % (out,),
                          {'kind': 'policy-auto', 'auto': auto})
        if not auto and (child_touches or out[0] == 'value'):
            rec.violation('host-object-touched:attribute:via-yaqlized-parent',
                          '$p.child.pub reached the non-yaqlized child: touches %r, outcome %r' % (child_touches, out),
                          {'kind': 'policy-auto', 'auto': auto})
    # what auto-yaqlization marks is the returned object, never its class: an unrelated instance of the same
    # class, which no yaqlized object ever returned, stays out of reach afterwards
    cfg = {'attributes': True, 'methods': True, 'indexer': True, 'wl': 'none', 'bl': 'none', 'rm': 'none'}
    for cls, prefix, value in ((Child, 'child.', 'CHILD-PUB'), (SlotChild, 'slot.', 'SLOT-PUB'), (EqChild, 'eq.', 'EQ-PUB')):
        p, settings = build_probe(cfg, auto=True)
        object.__getattribute__(p, '__dict__')['child'] = cls()
        first = mon.run('$p.child.pub', {'p': p})
        foreign = cls()
        for text in ('$f.pub', "$f['pub']", '[$p.child, $f].select($.pub)', '$p.child.pub + $f.pub'):
            out = mon.run(text, {'p': p, 'f': foreign})
            touches = [n for n, s in LOG.attrs if n.startswith(prefix) and s != 'unknown']
            n_ok = 2 if text.startswith('[') else 1
            rec.count('policy.cases')
            rec.case(('policy-auto-scope', cls.__name__, text), nontrivial=True)
            leaked = out[0] == 'value' and scan_value(out[1], value) and text in ('$f.pub', "$f['pub']")
            if leaked or (text in ('$f.pub', "$f['pub']") and touches):
                rec.violation('host-object-touched:attribute:via-auto-yaqlized-class',
                              '%s on an instance of %s that no yaqlized object returned (after %r gave %r): touches %r, outcome %r' % (
                                  text, cls.__name__, '$p.child.pub', first, touches, out),
                              {'kind': 'policy-auto', 'auto': True})
            elif text not in ('$f.pub', "$f['pub']") and out[0] == 'value':
                rec.violation('host-object-touched:attribute:via-auto-yaqlized-class',
                              '%s succeeded although $f (%s) was never yaqlized: %r' % (text, cls.__name__, out),
                              {'kind': 'policy-auto', 'auto': True})
    # restrictions declared on a class hold for its instances also when such an instance is handed out by an
    # auto-yaqlizing parent (auto-yaqlization must not replace them by permissive per-instance settings)
    @yaqlization.yaqlize(blacklist=['other', 'meth'])
    class Restricted(Probe):
        pass
    cfg = {'attributes': True, 'methods': True, 'indexer': True, 'wl': 'none', 'bl': 'none', 'rm': 'none'}
    for name, allowed in (('pub', True), ('other', False), ('meth', False), ('target', True)):
        for text in ('$p.child.%s' % name, "$p.child['%s']" % name, '$p.child.%s()' % name):
            p, settings = build_probe(cfg, auto=True)
            object.__getattribute__(p, '__dict__')['child'] = Restricted()
            out = mon.run(text, {'p': p})
            touched = [n for n, s in LOG.attrs if n == name and s != 'unknown'] + [k for k, s in LOG.items if k == name]
            rec.count('policy.cases')
            rec.case(('policy-auto-restricted', text), nontrivial=True)
            if not allowed and (touched or (out[0] == 'value' and not text.endswith('()'))):
                rec.violation('yaqlized-policy:class-restrictions-lost-through-auto-yaqlize',
                              '%s: the child is an instance of a class yaqlized with a whitelist/blacklist that excludes %r, '
                              'yet it was reached: touches %r, outcome %r' % (text, name, touched, out),
                              {'kind': 'policy-auto', 'auto': True})
    # one settings object (a set, a list, a tuple) shared by several yaqlize() calls: what one object's settings add
    # (e.g. the targets of its remapping) neither reaches the others nor changes the host's own collection
    for kind in (set, list, tuple, frozenset):
        shared = kind(['other'])
        before = sorted(shared)
        p1, p2 = Probe(), Probe()
        yaqlization.yaqlize(p1, blacklist=shared, attribute_remapping={'alias': 'target'})
        yaqlization.yaqlize(p2, blacklist=shared)
        for text, allowed in (('$q.target', True), ('$q.pub', True), ('$q.other', False), ("$q['target']", True)):
            out = mon.run(text, {'q': p2})
            touched = [n for n, s_ in LOG.attrs if s_ != 'unknown'] + [k for k, s_ in LOG.items]
            rec.count('policy.cases')
            rec.case(('policy-shared-settings', kind.__name__, text), nontrivial=True)
            if allowed != bool(touched):
                rec.violation('yaqlized-policy:settings-shared-between-objects',
                              '%s on an object yaqlized with a blacklist %s shared with another object (which remaps alias -> target): '
                              'touches %r, outcome %r' % (text, kind.__name__, touched, out), {'kind': 'policy-auto', 'auto': False})
        if sorted(shared) != before:
            rec.violation('yaqlized-policy:host-settings-object-mutated', 'the %s passed as blacklist became %r' % (kind.__name__, sorted(shared)),
                          {'kind': 'policy-auto', 'auto': False})
    # yaqlized objects that are also iterable, sequences or mappings: member access still follows their settings
    import collections.abc as _abc

    class IterProbe(Probe):
        def __iter__(self):
            return iter(())

    class SeqProbe(Probe, _abc.Sequence):
        def __len__(self):
            return 0

    class MapProbe(Probe, _abc.Mapping):
        def __iter__(self):
            return iter(())

        def __len__(self):
            return 0
    for cls in (IterProbe, SeqProbe, MapProbe):
        for text, want in (('$q.pub', 'PUB'), ("$q['pub']", 'ITEM:pub'), ('$q.meth()', 'METH0'), ('$q.other', None), ("$q['other']", None),
                           ('$q?.pub', 'PUB'), ('$q?.other', None), ('$q?._priv', None), ('$q?.meth()', 'METH0'), ('$q._priv', None),
                           ('[$q].other', None), ('[$q].pub', ['PUB']), ('[$q]?.other', None), ('$q?.other?.len()', None)):
            q = cls()
            yaqlization.yaqlize(q, blacklist=['other'])
            out = mon.run(text, {'q': q})
            rec.count('policy.cases')
            rec.case(('policy-container-like', cls.__name__, text), nontrivial=True)
            if (want is not None and out != ('value', want)) or (want is None and (out[0] == 'value' or not isinstance(
                    out[1], (AttributeError, KeyError)))):
                rec.violation('yaqlized-policy:container-like-object:%s' % cls.__name__,
                              '%s on a yaqlized object that is also %s gives %r (expected %s)' % (
                                  text, cls.__bases__[-1].__name__ if cls is not IterProbe else 'iterable', out,
                                  repr(want) if want is not None else 'the refusal of a blacklisted member'),
                              {'kind': 'policy-auto', 'auto': False})
    # an object that is not subscriptable: the indexer form never turns into attribute access
    class Plain:
        def __init__(self):
            object.__setattr__(self, 'pub', 'PUB')

        def __getattribute__(self, name):
            if name in INFRA:
                LOG.infra += 1
            else:
                LOG.attrs.append((name, hooks.yaql_site(2)))
            return object.__getattribute__(self, name)

        def meth(self):
            return 'METH'
    for attrs, meths in ((False, True), (True, False), (False, False), (True, True)):
        q = Plain()
        yaqlization.yaqlize(q, yaqlize_attributes=attrs, yaqlize_methods=meths)
        for text in ('$q[pub]', "$q['meth']", '$q[pub].len()'):
            out = mon.run(text, {'q': q})
            touched = [n for n, s_ in LOG.attrs if s_ != 'unknown' and n in ('pub', 'meth')]
            rec.count('policy.cases')
            rec.case(('policy-unsubscriptable', attrs, meths, text), nontrivial=True)
            if touched or out[0] == 'value':
                rec.violation('yaqlized-policy:indexer-reads-attribute-of-unsubscriptable-object',
                              '%s on an object without __getitem__ (yaqlize_attributes=%s, yaqlize_methods=%s): touches %r, outcome %r' % (
                                  text, attrs, meths, touched, out), {'kind': 'policy-auto', 'auto': False})
    # remapping with argument mapping: alias(y => 5) -> meth(x=5)
    cfg = {'attributes': True, 'methods': True, 'indexer': True, 'wl': 'none', 'bl': 'none', 'rm': 'name+args'}
    p, settings = build_probe(cfg)
    out = mon.run('$p.alias(y => 5)', {'p': p})
    rec.count('policy.cases')
    rec.case(('policy-argmap',), nontrivial=True)
    if out != ('value', 'METH5'):
        rec.violation('yaqlized-policy:argument-remapping', '$p.alias(y => 5) with alias -> (meth, {y: x}) gave %r' % (out,),
                      {'kind': 'policy-argmap'})
    # a yaqlized class (decorator form) and per-instance settings
    @yaqlization.yaqlize(blacklist=['other'])
    class K(Probe):
        pass
    for name, allowed in (('pub', True), ('other', False), ('_priv', False)):
        k = K()
        out = mon.run('$p.%s' % name, {'p': k})
        touched = [n for n, s in LOG.attrs]
        rec.count('policy.cases')
        rec.case(('policy-class', name), nontrivial=True)
        if allowed != (touched == [name]):
            rec.violation('yaqlized-policy:class-level-settings', '$p.%s on a yaqlized class: touches %r, outcome %r' % (
                name, touched, out), {'kind': 'policy-class', 'name': name})


MEMBERS = ['secret', 'reveal()', '_hidden', 'cls_secret', 'len()', 'keys()']


def _compose(spec, mon, rec):
    """random 2-3 deep compositions around the canary"""
    rng = rng_for(spec['seed'], 'c07', spec['name'])
    holders = ['$c', '[$c]', '[$c, $c]', '{k => $c}', '[[$c]]', '{k => [$c]}', 'set($c)', 'list($c)', '[$c].select($)',
               'dict(k => $c)', '[$c].toList()', '[$c].memorize()', '{k => $c}.values()', '{k => $c}.items()', '[$c].reverse()']
    steps = ['.first()', '.k', '.select($)', '.where(true)', '[0]', '.values()', '.flatten()', '.last()', '.toList()',
             '.get(k)', '.single()', '.orderBy(1)', '.distinct()', '.select($.%s)', '.%s', '?.%s', '.select($?.%s)',
             '.where($.%s = 1)', '.toDict($.%s)', '.groupBy($.%s)', '.orderBy($.%s)', '.aggregate($1.%s)', '.any($.%s)',
             '.selectMany($.%s)', '.indexWhere($.%s)', '.takeWhile($.%s)', '.sum($.%s)', '.max()', '.join(",")',
             '.select(str($))', '.select(call(str, [$], {}))', '.select(call(%s, [], {}, $))']
    for i in range(spec['count']):
        text = rng.choice(holders)
        for _ in range(rng.choice((1, 2, 3))):
            s = rng.choice(steps)
            if '%s' in s:
                m = rng.choice(MEMBERS)
                if s.endswith('call(%s, [], {}, $))'):
                    m = m.rstrip('()')
                s = s % m
            text += s
        cls = Canary if i % 2 else PlainCanary
        mon.canary_case(text, {'c': cls()}, 'composed:%s' % cls.__name__)
        if i % 500 == 0:
            rec.sample({'kind': 'composition', 'text': text})


def replay(data, rec):
    mon = Mon(rec)
    try:
        k = data['kind']
        if k == 'policy':
            policy_check(mon, data['cfg'], data['form'], data['name'], rec)
            print('touches: attrs=%r items=%r' % (LOG.attrs, LOG.items))
        elif k in ('canary', 'direct', 'position'):
            cls = {'Canary': Canary, 'PlainCanary': PlainCanary, 'ProtoCanary': ProtoCanary}.get(data.get('cls'), Canary)
            text = data['text']
            eng = mon.eng_deleg if data.get('engine') == 'delegate-syntax' else mon.eng
            vals = {}
            if k == 'position':
                for o, i, base in canary_positions(mon):
                    if o.ident == data['ident'] and i == data['pos']:
                        args = list(base)
                        args[i] = cat.var(cat.Fresh(cls, 'CANARY'))
                        for form in ('function', 'method', 'auto'):
                            r = cat.render(o, args, form=form)
                            if r and r[0] == text:
                                vals = {kk: cat.materialize(a) for kk, a in r[1].items()}
            else:
                vals = {'c': cls()}
                for name in set(re.findall(r'\$(a\d+)\b', text)):
                    vals[name] = cls()
            out = mon.canary_case(text, vals, data.get('where', 'replay'), eng=eng)
            print('outcome %r; touches attrs=%r items=%r calls=%r' % (out, LOG.attrs, LOG.items, LOG.calls))
        else:
            _policy_extras(mon, rec)
    finally:
        mon.close()
