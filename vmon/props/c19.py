"""C19 - string and regex functions agree with their reference model.

Oracle: vmon.model.strings (hand-written loops for the index arithmetic,
splitting, trimming and replacing; Python `re` plus match-record construction
for regex) + law monitors (split/join inverse, trim idempotence, index/slice
consistency).
"""
import itertools
import re

import yaql
from yaql.standard_library import regex as yregex

from vmon import catalogue as cat
from vmon import hooks
from vmon import yq
from vmon.core import rng_for
from vmon.model import strings as msx

RULE = ('a case is (function form, string(s) over a small alphabet or unicode samples, integer start/length/count, '
        'pattern, flags, selector); distinct by (expression text, inputs); non-trivial = the input string is non-empty')
ASSUMPTIONS = [
    'both sides raising counts as agreement',
    'regex matching itself is Python re on both sides; the model decides how yaql exposes it (receiver orders, flags, '
    'match records for $, $1.., named groups, counts)',
    'case mapping is judged on ASCII letters; unicode samples only where the model does not touch them',
]
REQUIRED = {'fn.*': 60, 'cases': 3000, 'agree.value': 2000, 'agree.error': 20, 'regex.cases': 500,
            'regex.named_groups_published': 50, 'regex.selector_cases': 200, 'laws.checked': 200,
            'reach._publish_match': 100, 'pr.*': 45}

ALPHA = 'ab, '
UNI = ['é', 'ß', '中', '\U0001F600', 'İ', 'Σ', ' ', 'ａ']


# character -> (lower, upper) by the Unicode SpecialCasing / UnicodeData mappings (not case folding)
CASE_TABLE = {'\u00df': ('\u00df', 'SS'), '\u017f': ('\u017f', 'S'), '\ufb01': ('\ufb01', 'FI'), '\u0131': ('\u0131', 'I'),
              '\u00c9': ('\u00e9', '\u00c9'), '\u00e9': ('\u00e9', '\u00c9'), '\u0414': ('\u0434', '\u0414'),
              '\uff21': ('\uff41', '\uff21'), '\u01c5': ('\u01c6', '\u01c4'), '\u0130': ('i\u0307', '\u0130'),
              '\u03a9': ('\u03c9', '\u03a9'), '\u1e9e': ('\u00df', '\u1e9e'), '\u0587': ('\u0587', '\u0535\u0552')}


def gen_str(rng, maxlen=8, uni=0.1):
    n = rng.choice((0, 1, 2, 3, 4, 5, 6, 8)) if maxlen >= 8 else rng.randrange(maxlen + 1)
    pool = list(ALPHA) + (UNI if rng.random() < uni else [])
    return ''.join(rng.choice(pool) for _ in range(n))


def lit(v):
    if v is None:
        return 'null'
    if v is True:
        return 'true'
    if v is False:
        return 'false'
    if isinstance(v, int):
        return str(v) if v >= 0 else '(%d)' % v
    return "'" + v.replace('\\', '\\\\').replace("'", "\\'") + "'"


def string_cases(rng):
    """yields (name, text, vars, model thunk)"""
    s = gen_str(rng)
    sub = gen_str(rng, 2, 0)
    n = len(s)
    start = rng.randrange(-2 * n - 3, n + 3) if rng.random() < 0.5 else rng.randrange(-n, n + 3)     # also below -len
    length = rng.randrange(-2, n + 3)
    cnt = rng.randrange(-1, 4)
    chars = rng.choice([None, 'a', 'ab', ' ', ', ', 'b,'])
    v = {'s': s, 'u': sub}
    M = msx
    yield 'substring', '$s.substring(%s)' % lit(start), v, lambda: M.substring(s, start)
    yield 'substring-len', '$s.substring(%s, %s)' % (lit(start), lit(length)), v, lambda: M.substring(s, start, length)
    yield 'indexOf', '$s.indexOf($u)', v, lambda: M.index_of(s, sub)
    yield 'indexOf-start', '$s.indexOf($u, %s)' % lit(start), v, lambda: M.index_of(s, sub, start)
    yield 'indexOf-start-len', '$s.indexOf($u, %s, %s)' % (lit(start), lit(length)), v, lambda: M.index_of_len(s, sub, start, length)
    yield 'lastIndexOf', '$s.lastIndexOf($u)', v, lambda: M.last_index_of(s, sub)
    yield 'lastIndexOf-start', '$s.lastIndexOf($u, %s)' % lit(start), v, lambda: M.last_index_of(s, sub, start)
    yield 'lastIndexOf-start-len', '$s.lastIndexOf($u, %s, %s)' % (lit(start), lit(length)), v, (
        lambda: M.last_index_of_len(s, sub, start, length))
    sep = rng.choice([None, 'a', ',', ' ', 'ab', ', ', ''])
    yield 'split', '$s.split(%s)' % lit(sep), v, lambda: M.split(s, sep)
    yield 'split-default', '$s.split()', v, lambda: M.split(s)
    yield 'split-max', '$s.split(%s, %s)' % (lit(sep), lit(cnt)), v, lambda: M.split(s, sep, cnt)
    yield 'split-max-kw', '$s.split(maxSplits => %s)' % lit(cnt), v, lambda: M.split(s, None, cnt)
    yield 'rightSplit', '$s.rightSplit(%s)' % lit(sep), v, lambda: M.rsplit(s, sep)
    yield 'rightSplit-max', '$s.rightSplit(%s, %s)' % (lit(sep), lit(cnt)), v, lambda: M.rsplit(s, sep, cnt)
    yield 'rightSplit-max-kw', '$s.rightSplit(maxSplits => %s)' % lit(cnt), v, lambda: M.rsplit(s, None, cnt)
    yield 'trim', '$s.trim(%s)' % lit(chars), v, lambda: M.trim(s, chars)
    yield 'trim-default', '$s.trim()', v, lambda: M.trim(s)
    yield 'trimLeft', '$s.trimLeft(%s)' % lit(chars), v, lambda: M.trim(s, chars, right=False)
    yield 'trimRight', '$s.trimRight(%s)' % lit(chars), v, lambda: M.trim(s, chars, left=False)
    yield 'norm', '$s.norm(%s)' % lit(chars), v, lambda: M.norm(s, chars)
    yield 'norm-func', 'norm($s)', v, lambda: M.norm(s)
    yield 'norm-null', 'norm(null)', v, lambda: None
    yield 'isEmpty', '$s.isEmpty()', v, lambda: M.is_empty(s)
    yield 'isEmpty-chars', '$s.isEmpty(chars => %s)' % lit(chars), v, lambda: M.is_empty(s, True, chars)
    yield 'isEmpty-notrim', '$s.isEmpty(false)', v, lambda: M.is_empty(s, False)
    yield 'isEmpty-null', 'isEmpty(null)', v, lambda: True
    new = rng.choice(['', 'x', 'ab', 'a'])
    yield 'replace', '$s.replace($u, %s)' % lit(new), v, lambda: M.replace(s, sub, new)
    yield 'replace-count', '$s.replace($u, %s, %s)' % (lit(new), lit(cnt)), v, lambda: M.replace(s, sub, new, cnt)
    pairs = [(rng.choice(['a', 'b', 'ab', ',', ' ']), rng.choice(['x', 'b', '', 'ab'])) for _ in range(rng.randrange(1, 4))]
    pairs = list(dict(pairs).items())
    dtext = '{' + ', '.join('%s => %s' % (lit(k), lit(x)) for k, x in pairs) + '}'
    yield 'replace-dict', '$s.replace(%s)' % dtext, v, lambda: M.replace_dict(s, pairs)
    yield 'replace-dict-count', '$s.replace(%s, %s)' % (dtext, lit(cnt)), v, lambda: M.replace_dict(s, pairs, cnt)
    yield 'replace-dict-nonstring', "$s.replace({1 => null, a => true})", v, lambda: M.replace_dict(s, [(1, None), ('a', True)])
    ascii_only = all(ord(c) < 128 for c in s)
    if ascii_only:
        mixed = ''.join(c.upper() if rng.random() < 0.5 else c for c in s)
        v2 = {'s': mixed}
        yield 'toUpper', '$s.toUpper()', v2, lambda: M.to_upper_ascii(mixed)
        yield 'toLower', '$s.toLower()', v2, lambda: M.to_lower_ascii(mixed)
    # case mapping beyond ASCII (full Unicode lower / upper mapping, not case folding), from a hand-written table
    ch = rng.choice(sorted(CASE_TABLE))
    ctx_s = rng.choice(['', 'x', 'Xy']) + ch + rng.choice(['', 'z', 'Z1'])
    lo = ''.join(CASE_TABLE[c][0] if c in CASE_TABLE else M.to_lower_ascii(c) for c in ctx_s)
    up = ''.join(CASE_TABLE[c][1] if c in CASE_TABLE else M.to_upper_ascii(c) for c in ctx_s)
    yield 'toLower-unicode', '$s.toLower()', {'s': ctx_s}, lambda: lo
    yield 'toUpper-unicode', '$s.toUpper()', {'s': ctx_s}, lambda: up
    args = [gen_str(rng, 2, 0) for _ in range(rng.randrange(0, 4))]
    atext = ', '.join(lit(a) for a in args)
    yield 'startsWith', '$s.startsWith(%s)' % atext, v, (lambda: M.starts_with(s, args) if args else _nomatch_or(False))
    yield 'endsWith', '$s.endsWith(%s)' % atext, v, (lambda: M.ends_with(s, args) if args else _nomatch_or(False))
    yield 'toCharArray', '$s.toCharArray()', v, lambda: list(s)
    yield 'len', '$s.len()', v, lambda: len(s)
    yield 'len-func', 'len($s)', v, lambda: len(s)
    yield 'concat', 'concat($s, $u, %s)' % lit(new), v, lambda: s + sub + new
    yield 'plus', '$s + $u + %s' % lit(new), v, lambda: s + sub + new
    yield 'in', '$u in $s', v, lambda: M._find(s, sub, 0, len(s)) >= 0
    yield 'isString', 'isString($s)', v, lambda: True
    # (values that are equal in python but spelled differently - true / 1 / 1.0, false / 0 / 0.0 - each keep their own text)
    items = [rng.choice(['a', 'b', '', 1, None, True, 2.5, 'ab', 1.0, 0, False, 0.0, -0.0, 1, True]) for _ in range(rng.randrange(0, 6))]
    v3 = {'s': s, 'items': tuple(items)}
    yield 'join', '$items.join($s)', v3, lambda: M.join(s, items)
    yield 'join-rev', '$s.join($items)', v3, lambda: M.join(s, items)
    yield 'join-iter', '$items.select($).join($s)', v3, lambda: M.join(s, items)
    val = rng.choice([None, True, False, 0, -12, 2 ** 70, 1.5, 'x', '', s])
    yield 'str', 'str($v)', {'v': val}, lambda: M.yaql_str(val)
    num = rng.choice([0, 1, 255, 256, -255, 2 ** 64, -1, 16, 1.5, True])
    yield 'hex', 'hex($v)', {'v': num}, lambda: M.hex_(num)
    yield 'mul', '$s * %d' % rng.randrange(-1, 4), v, None
    flags = {f: rng.random() < 0.25 for f in ('digits', 'hexdigits', 'asciiLowercase', 'asciiUppercase', 'asciiLetters',
                                              'octdigits', 'punctuation', 'printable', 'whitespace')}
    if rng.random() < 0.1:
        flags[rng.choice(msx.PY2_ONLY)] = True
    ftext = ', '.join('%s => true' % f for f, on in flags.items() if on)
    yield 'characters', 'characters(%s).toSet()' % ftext, {}, lambda: M.characters(flags)
    yield 'escapeRegex', "regex(escapeRegex($s)).searchAll($s + 'x' + $s)", v, (
        lambda: [s, s] if s else [''] * (2 * len(s) + 2))


def _nomatch_or(v):
    return v


# ---- regex ---------------------------------------------------------------------------------------------

def gen_pattern(rng):
    """-> (pattern text, number of groups, list of group names)"""
    atoms = ['a', 'b', 'ab', '[ab]', '.', ',', ' ', 'a|b', 'a*', 'b+', 'a?', '[^a]', '\\w', '\\s', 'a{2}', '^', '$', 'b*?']
    names = []
    parts = []
    ng = 0
    for _ in range(rng.choice((1, 1, 2, 2, 3, 4))):
        r = rng.random()
        a = rng.choice(atoms)
        if r < 0.25 and ng < 3:
            ng += 1
            parts.append('(%s)%s' % (a, rng.choice(('', '', '?', '*'))))
        elif r < 0.4 and len(names) < 2:
            ng += 1
            nm = 'n%d' % (len(names) + 1)
            names.append(nm)
            parts.append('(?P<%s>%s)%s' % (nm, a, rng.choice(('', '', '?'))))
        elif r < 0.45:
            parts.append('(?:%s)' % a)
        else:
            parts.append(a)
    return ''.join(parts), ng, names


class HostileStr(str):
    """a str subclass (markup-like host type) whose own methods garble their results"""

    def _bad(self, *a, **kw):
        return 'HOSTILE'
    replace = strip = lstrip = rstrip = upper = lower = title = casefold = format = _bad

    def join(self, it):
        return 'HOSTILE'

    def split(self, *a, **kw):
        return ['HOSTILE']
    rsplit = split

    def find(self, *a):
        return 424242
    rfind = index = rindex = count = find

    def startswith(self, *a):
        return True
    endswith = startswith


class Sel:
    def __init__(self, text, fn):
        self.text = text
        self.fn = fn


def _rec(recs, key):
    r = recs.get(key)
    return dict(r) if r is not None else None


def _field(recs, key, field):
    r = recs.get(key)
    if r is None:
        raise msx.ModelError('null has no field')
    return r[field]


def selectors(ng, names):
    out = [
        Sel('$', lambda r: _rec(r, '1')), Sel('$.value', lambda r: _field(r, '1', 'value')),
        Sel('$.start', lambda r: _field(r, '1', 'start')), Sel('[$.start, $.end]', lambda r: [_field(r, '1', 'start'), _field(r, '1', 'end')]),
        Sel('$1.value', lambda r: _field(r, '1', 'value')), Sel('$2', lambda r: _rec(r, '2')),
        Sel('$2.value', lambda r: _field(r, '2', 'value')), Sel('[$1.value, $2, $3]', lambda r: [_field(r, '1', 'value'), _rec(r, '2'), _rec(r, '3')]),
        Sel('$4', lambda r: _rec(r, '4')), Sel("'k'", lambda r: 'k'),
        # selectors whose result is produced lazily: the records they read inside the inner lambda must still be
        # those of their own match when the result is consumed (after all matches have been visited)
        Sel('[7, 8].select([$, $2])', lambda r: [[7, _rec(r, '2')], [8, _rec(r, '2')]]),
        Sel('[7].select($2).where(true)', lambda r: [_rec(r, '2')]),
        Sel('{k => [0].select($3)}', lambda r: {'k': [_rec(r, '3')]}),
    ]
    for nm in names:
        out.append(Sel('$%s' % nm, lambda r, nm=nm: _rec(r, nm)))
        out.append(Sel('$%s.value' % nm, lambda r, nm=nm: _field(r, nm, 'value')))
        out.append(Sel('[$%s.start, $%s.end]' % (nm, nm), lambda r, nm=nm: [_field(r, nm, 'start'), _field(r, nm, 'end')]))
        out.append(Sel('[0, 1].select([$, $%s])' % nm, lambda r, nm=nm: [[0, _rec(r, nm)], [1, _rec(r, nm)]]))
    return out


STR_SELECTORS = [
    Sel('$.value.toUpper()', lambda r: r['1']['value'].upper()), Sel("'<' + $.value + '>'", lambda r: '<' + r['1']['value'] + '>'),
    Sel("str($.start)", lambda r: str(r['1']['start'])), Sel("''", lambda r: ''),
    Sel('$2.value', lambda r: _field(r, '2', 'value')), Sel('$.value * 2', lambda r: r['1']['value'] * 2),
]


def regex_cases(rng):
    pat, ng, names = gen_pattern(rng)
    s = gen_str(rng, 8, 0.05)
    ic, ml_, da = rng.random() < 0.25, rng.random() < 0.25, rng.random() < 0.25
    if ic and rng.random() < 0.5:
        s = s.upper()
    if ml_ or da:
        s = s.replace(',', '\n')
    try:
        rx = msx.compile_(pat, ic, ml_, da)
    except re.error:
        return
    flags = ''.join(', %s => true' % n for n, on in (('ignoreCase', ic), ('multiLine', ml_), ('dotAll', da)) if on)
    R = 'regex(%s%s)' % (lit(pat), flags)
    v = {'s': s}
    info = {'named': len(names), 'groups': ng}
    yield 'matches', '%s.matches($s)' % R, v, (lambda: rx.search(s) is not None), info
    yield 'matches-op', '$s =~ %s' % R, v, (lambda: rx.search(s) is not None), info
    yield 'not-matches-op', '$s !~ %s' % R, v, (lambda: rx.search(s) is None), info
    if not flags:
        yield 'matches-str', '$s.matches(%s)' % lit(pat), v, (lambda: rx.search(s) is not None), info
        yield 'matches-op-str', '$s =~ %s' % lit(pat), v, (lambda: rx.search(s) is not None), info
        yield 'not-matches-op-str', '$s !~ %s' % lit(pat), v, (lambda: rx.search(s) is None), info
    yield 'isRegex', 'isRegex(%s)' % R, v, (lambda: True), info
    yield 'search', '%s.search($s)' % R, v, (lambda: (rx.search(s).group() if rx.search(s) else None)), info
    yield 'searchAll', '%s.searchAll($s)' % R, v, (lambda: [m.group() for m in rx.finditer(s)]), info
    for sel in rng.sample(selectors(ng, names), 4):
        i2 = dict(info, selector=True)
        yield 'search-selector', '%s.search($s, %s)' % (R, sel.text), v, (
            lambda sel=sel: (sel.fn(msx.match_records(rx.search(s))) if rx.search(s) else None)), i2
        yield 'searchAll-selector', '%s.searchAll($s, %s)' % (R, sel.text), v, (
            lambda sel=sel: [sel.fn(msx.match_records(m)) for m in rx.finditer(s)]), i2
        # all matches visited first, rows consumed afterwards
        yield 'searchAll-selector-materialised', '%s.searchAll($s, %s).toList().reverse().reverse()' % (R, sel.text), v, (
            lambda sel=sel: [sel.fn(msx.match_records(m)) for m in rx.finditer(s)]), i2
    k = rng.randrange(0, 3)
    yield 'split', '%s.split($s)' % R, v, (lambda: rx.split(s)), info
    yield 'split-max', '%s.split($s, %d)' % (R, k), v, (lambda: rx.split(s, k)), info
    yield 'split-str-recv', '$s.split(%s, maxSplit => %d)' % (R, k), v, (lambda: rx.split(s, k)), info
    repl = rng.choice(['x', '', '<>', '\\\\g<0>!'] + (['[\\\\1]'] if ng else []))
    prepl = repl.replace('\\\\', '\\')
    yield 'replace', '%s.replace($s, %s)' % (R, lit_raw(repl)), v, (lambda: rx.sub(prepl, s)), info
    yield 'replace-count', '%s.replace($s, %s, %d)' % (R, lit_raw(repl), k), v, (lambda: rx.sub(prepl, s, k)), info
    yield 'replace-str-recv', '$s.replace(%s, %s, count => %d)' % (R, lit_raw(repl), k), v, (lambda: rx.sub(prepl, s, k)), info
    for sel in rng.sample(STR_SELECTORS, 2):
        i2 = dict(info, selector=True)
        yield 'replaceBy', '%s.replaceBy($s, %s)' % (R, sel.text), v, (
            lambda sel=sel: rx.sub(lambda m: sel.fn(msx.match_records(m)), s)), i2
        yield 'replaceBy-count', '$s.replaceBy(%s, %s, %d)' % (R, sel.text, k), v, (
            lambda sel=sel: rx.sub(lambda m: sel.fn(msx.match_records(m)), s, k)), i2


ESC_PATTERNS = [r'\(?<br>\)?', r'[\](?<a>]+', r'\(\?<x>a\)', r'a\\(?P<n>b)', r'\\(?P<n>a)', r'\[?<a>\]?', r'(?<=a)b', r'(?<!a)b',
                r'\(?P<x>\)', r'<(?P<t>\w+)>', r'\\\(a\)', r'[\\\]]+', r'\(?<br>', r'(?P<n>a)(?P=n)', r'\?<a>', r'a\.b', r'\\.',
                r'[(?<a>]+', r'\$', r'\^a', r'\bab\b', r'\d+', r'\\d', r'(\()(\))']
ESC_SUBJECTS = ['<br>', '(?<br>)', 'P]a(', 'ab', 'a\\b', '(a)', '<a>x</a>', '\\a', ']\\]', 'aa', 'a.b', 'axb', '?<a>', '$^a', 'ab ab', 'a1\\d22',
                '()', '[?<a>]']
ESC_TEMPLATES = [r'\\d', r'C:\\Users\\demo', r'\\\\d', r'x\\wy', r'\\1', r'\1', r'\g<0>', r'\\g<0>', r'\n', r'\\n', r'\\', r'\\\\',
                 r'a\\b\\c', r'\t', r'\\t', r'[\g<0>]', r'\\Users', r'\\.', '<\\>']


def regex_escape_cases(rng):
    """patterns, subjects and replacement templates in which backslashes, brackets and group syntax meet: the
    functions hand the pattern and the template to the regular-expression engine exactly as written"""
    pat = rng.choice(ESC_PATTERNS) if rng.random() < 0.8 else rng.choice(ESC_PATTERNS) + rng.choice(ESC_PATTERNS)
    subj = rng.choice(ESC_SUBJECTS) + (rng.choice(ESC_SUBJECTS) if rng.random() < 0.4 else '')
    info = {'named': 0, 'groups': 0}
    v = {'s': subj, 'p': pat}

    def thunk(f):
        def run():
            return f(re.compile(pat))
        return run
    for recv, label in (('regex(%s)' % lit(pat), 'literal'), ('regex($p)', 'variable')):
        yield 'escapes-matches-' + label, '%s.matches($s)' % recv, v, thunk(lambda rx: rx.search(subj) is not None), info
        yield 'escapes-search-' + label, '%s.search($s)' % recv, v, thunk(lambda rx: (rx.search(subj).group() if rx.search(subj) else None)), info
        yield 'escapes-searchAll-' + label, '%s.searchAll($s)' % recv, v, thunk(lambda rx: [m.group() for m in rx.finditer(subj)]), info
        yield 'escapes-split-' + label, '%s.split($s)' % recv, v, thunk(lambda rx: rx.split(subj)), info
        yield 'escapes-replace-' + label, "%s.replace($s, '_')" % recv, v, thunk(lambda rx: rx.sub('_', subj)), info
    yield 'escapes-matches-op-str', '$s =~ %s' % lit(pat), v, thunk(lambda rx: rx.search(subj) is not None), info
    yield 'escapes-not-matches-op-str', '$s !~ $p', v, thunk(lambda rx: rx.search(subj) is None), info
    yield 'escapes-matches-str', '$s.matches(%s)' % lit(pat), v, thunk(lambda rx: rx.search(subj) is not None), info
    # replacement templates
    tmpl = rng.choice(ESC_TEMPLATES)
    tp, ts = rng.choice((('a', 'a1a'), ('(a)', 'xaya'), ('\\d', 'a1b22'), ('(?P<g>b)', 'abc')))
    tp = tp.replace('\\\\', '\\')
    v2 = {'s': ts, 'p': tp, 't': tmpl}

    def tthunk(count=None):
        def run():
            rx = re.compile(tp)
            return rx.sub(tmpl, ts) if count is None else rx.sub(tmpl, ts, count)
        return run
    yield 'escapes-template-literal', 'regex(%s).replace($s, %s)' % (lit(tp), lit(tmpl)), v2, tthunk(), info
    yield 'escapes-template-variable', 'regex($p).replace($s, $t)', v2, tthunk(), info
    yield 'escapes-template-str-recv', '$s.replace(regex($p), %s)' % lit(tmpl), v2, tthunk(), info
    yield 'escapes-template-count', 'regex($p).replace($s, $t, 1)', v2, tthunk(1), info


def lit_raw(t):
    """t is already written with yaql escapes (\\\\ for one backslash)"""
    return "'" + t.replace("'", "\\'") + "'"


def deep_same(x, y):
    if type(x) is not type(y):
        return False
    if isinstance(x, dict):
        return len(x) == len(y) and all(k in y and deep_same(v, y[k]) for k, v in x.items())
    if isinstance(x, list):
        return len(x) == len(y) and all(deep_same(a, b) for a, b in zip(x, y))
    return x == y


def finalize(v):
    if isinstance(v, dict):
        return {k: finalize(x) for k, x in v.items()}
    if isinstance(v, (list, tuple)):
        return [finalize(x) for x in v]
    return v


class Mon:
    def __init__(self, rec):
        self.rec = rec
        self.eng = yq.engine({'yaql.limitIterators': 10000})
        self.ctx = yaql.create_context()
        self.reach = hooks.Reach()
        self.reach.watch(yregex._publish_match, '_publish_match')
        for o in cat.build(self.ctx):
            mod = o.code_owner.__module__.split('.')[-1]
            if mod in ('strings', 'regex'):
                self.reach.watch(o.code_owner, 'payload.%s.%s' % (mod, o.code_owner.__name__))
        self.reach.start()

    def close(self):
        for k in list(self.reach.counts):
            if k.startswith('payload.'):
                if self.reach.counts[k]:
                    self.rec.count('pr.' + k[len('payload.'):], self.reach.counts[k])
                del self.reach.counts[k]
        self.reach.flush(self.rec)
        self.reach.stop()

    def run(self, text, vars_):
        self.turn = getattr(self, 'turn', 0) + 1
        if not hasattr(self, 'worlds'):
            from yaql import legacy as ylegacy
            from yaql.language import conventions as yconv
            # the string and regex functions mean the same in every flavour of context a host can set up
            self.worlds = [('default', self.eng, self.ctx),
                           ('delegates', yq.engine({'yaql.limitIterators': 10000}, allow_delegates=True), yaql.create_context(delegates=True)),
                           ('legacy-functions', self.eng, ylegacy.create_context()),
                           ('python-convention', self.eng, yaql.create_context(convention=yconv.PythonConvention())),
                           ('partial-modules', self.eng, yaql.create_context(datetime=False, branching=False, yaqlized=False)),
                           ('default', self.eng, self.ctx)]
        wname, eng, base = self.worlds[self.turn % len(self.worlds)]
        if wname == 'python-convention' and ('=>' in text or re.search(r'[a-z][A-Z]\w*\(', text)):
            wname, eng, base = self.worlds[0]
        if wname == 'legacy-functions' and ('=>' in text or '{' in text):
            wname, eng, base = self.worlds[0]       # (`=>` builds tuples there)
        self.rec.count('world.' + wname)
        ctx = base.create_child_context()
        if self.turn % 5 == 0:
            # the same text held by the host in a str subclass with a will of its own: a string parameter takes its text
            vars_ = {k: (HostileStr(v) if type(v) is str else v) for k, v in vars_.items()}
            self.rec.count('world.str-subclass-values')
        for k, v in vars_.items():
            ctx[k] = v
        try:
            return ('value', eng(text).evaluate(context=ctx))
        except Exception as e:
            return ('error', type(e).__name__)

    def compare(self, name, text, vars_, thunk, replay):
        rec = self.rec
        got = self.run(text, vars_)
        try:
            want = ('value', finalize(thunk()))
        except Exception as e:
            want = ('error', type(e).__name__)
        rec.count('cases')
        rec.count('fn.' + name)
        ok = got[0] == want[0] and (got[0] == 'error' or deep_same(got[1], want[1]))
        rec.count(('agree.' + got[0]) if ok else 'disagree')
        if not ok:
            rec.violation('string-result-differs-from-model:%s' % name,
                          '%s with %r gives %r, the documented meaning gives %r' % (text, vars_, got, want), replay)
        return ok, got, want


def plan(tier, seed):
    thorough = tier == 'thorough'
    shards = []
    for p in range(16 if thorough else 4):
        shards.append({'name': 'str-%d' % p, 'kind': 'strings', 'count': 2500 if thorough else 160})
    for p in range(16 if thorough else 4):
        shards.append({'name': 'rx-%d' % p, 'kind': 'regex', 'count': 5000 if thorough else 250})
    for p in range(4 if thorough else 1):
        shards.append({'name': 'laws-%d' % p, 'kind': 'laws', 'count': 5000 if thorough else 400})
    return shards


def run_shard(spec, rec):
    mon = Mon(rec)
    try:
        rng = rng_for(spec['seed'], 'c19', spec['name'])
        if spec['kind'] == 'strings':
            for i in range(spec['count']):
                for name, text, vars_, thunk in string_cases(rng):
                    if thunk is None:
                        continue
                    rec.case((text, repr(vars_)), nontrivial=bool(vars_.get('s', 'x')))
                    mon.compare(name, text, vars_, thunk, {'kind': 'strings', 'shard': spec['name'], 'count': spec['count']})
                if i % 60 == 0:
                    rec.sample({'function': name, 'text': text, 'vars': repr(vars_)})
        elif spec['kind'] == 'regex':
            for i in range(spec['count']):
                for name, text, vars_, thunk, info in itertools.chain(regex_cases(rng), regex_escape_cases(rng)):
                    rec.count('regex.cases')
                    if name.startswith('escapes-'):
                        rec.count('regex.escape_cases')
                    if info.get('selector'):
                        rec.count('regex.selector_cases')
                        if info['named']:
                            rec.count('regex.named_groups_published')
                    rec.case((text, repr(vars_)), nontrivial=bool(vars_['s']))
                    ok, got, want = mon.compare(name, text, vars_, thunk,
                                                {'kind': 'regex', 'shard': spec['name'], 'count': spec['count']})
                if i % 80 == 0:
                    rec.sample({'function': name, 'text': text, 'string': vars_['s'], 'result': repr(got)[:200]})
        else:
            _laws(spec, mon, rec, rng)
    finally:
        mon.close()


def _laws(spec, mon, rec, rng):
    for i in range(spec['count']):
        s = gen_str(rng)
        sep = rng.choice(['a', ',', ' ', 'ab', ', ', 'b'])
        rec.count('laws.checked')
        rec.case(('law', s, sep), nontrivial=bool(s))

        def bad(law, detail):
            rec.violation('string-law-broken:%s' % law, '%s (s=%r, sep=%r)' % (detail, s, sep), {'kind': 'law', 's': s, 'sep': sep})
        r = mon.run('$s.split($p).join($p)', {'s': s, 'p': sep})
        if r != ('value', s):
            bad('split-join-inverse', 's.split(sep).join(sep) = %r' % (r,))
        r = mon.run('$s.rightSplit($p).join($p)', {'s': s, 'p': sep})
        if r != ('value', s):
            bad('rightSplit-join-inverse', 's.rightSplit(sep).join(sep) = %r' % (r,))
        r = mon.run('$s.trim().trim() = $s.trim() and $s.trimLeft().trimRight() = $s.trim()', {'s': s})
        if r != ('value', True):
            bad('trim-idempotent', '%r' % (r,))
        r = mon.run('$s.indexOf($p)', {'s': s, 'p': sep})
        if r[0] == 'value' and r[1] >= 0:
            r2 = mon.run('$s.substring(%d, %d) = $p' % (r[1], len(sep)), {'s': s, 'p': sep})
            r3 = mon.run('$p in $s.substring(0, %d)' % (r[1] + len(sep) - 1), {'s': s, 'p': sep})
            if r2 != ('value', True) or r3 != ('value', False):
                bad('indexOf-is-first-occurrence', 'indexOf = %d, substring check %r, earlier occurrence %r' % (r[1], r2, r3))
        elif r == ('value', -1):
            r2 = mon.run('$p in $s', {'s': s, 'p': sep})
            if r2 != ('value', False):
                bad('indexOf-minus-one-means-absent', '%r' % (r2,))
        r = mon.run('$s.toCharArray().join("") = $s and $s.toCharArray().len() = $s.len()', {'s': s})
        if r != ('value', True):
            bad('toCharArray-roundtrip', '%r' % (r,))
        r = mon.run('$s.replace($p, $p) = $s', {'s': s, 'p': sep})
        if r != ('value', True):
            bad('replace-identity', '%r' % (r,))
        r = mon.run("regex(escapeRegex($p)).split($s) = $s.split($p)", {'s': s, 'p': sep})
        if r != ('value', True):
            bad('regex-split-of-literal', '%r' % (r,))


def replay(data, rec):
    print('C19 cases are regenerated from their seed; re-running shard %s' % data.get('shard'))
    if data['kind'] == 'law':
        spec = {'name': 'laws-0', 'kind': 'laws', 'count': 400, 'seed': rec.spec['seed'], 'tier': rec.spec['tier']}
    else:
        spec = {'name': data['shard'], 'kind': data['kind'], 'count': data.get('count', 160), 'seed': rec.spec['seed'],
                'tier': rec.spec['tier']}
    run_shard(spec, rec)
