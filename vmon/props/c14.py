"""C14 - streaming operators consume only what they need from their source.

Monitor: pull counter of an instrumented endless source and tick counts of the
lambdas, after the harness pulled k results from the unfinalised value of a
pipeline; oracle = the same pipeline on the lazy reference models over an
identical counting source (its counts are "what those k results require").
"""
import yaql

from vmon import catalogue as cat
from vmon import hooks
from vmon import yq
from vmon.core import rng_for
from vmon.model import library as ml

RULE = ('a case is (pipeline of <= 4 streaming operators, terminal or number k of results pulled, lambdas); distinct '
        'by (expression text, k); non-trivial = the real source was pulled at least once')
ASSUMPTIONS = [
    'bound = model count + 1, applied to total source pulls and to total lambda applications of the pipeline',
    'cases in which the model itself needs more than the hard cap (predicates that stop matching) are skipped and counted',
    'operators documented as materialising (orderBy, reverse, groupBy, last, len) are not generated',
]
REQUIRED = {'cases': 500, 'cases.compared': 400, 'src.pulled_cases': 400, 'ticks.observed': 500, 'op.*': 25,
            'pr.*': 20, 'k.0': 20, 'k.1': 50, 'k.5': 50, 'terminal': 100}

HARD_CAP = 3000


class Stage:
    def __init__(self, name, tmpl, model, lam=None, arg=None, dict_source=False):
        self.name = name
        self.tmpl = tmpl
        self.model = model
        self.lam = lam      # list of Lam to choose from
        self.arg = arg      # 'n' small int
        self.dict_source = dict_source


PRED = [ml.Lam('$ mod 2 = 0', lambda x: x % 2 == 0, kind='predicate'), ml.Lam('$ > 3', lambda x: x > 3, kind='predicate'),
        ml.Lam('true', lambda x: True, kind='predicate'), ml.Lam('$ mod 3 != 1', lambda x: x % 3 != 1, kind='predicate')]
PRED_PREFIX = [ml.Lam('$ < 4', lambda x: x < 4, kind='predicate'), ml.Lam('$ < 0', lambda x: x < 0, kind='predicate'),
               ml.Lam('$ != 6', lambda x: x != 6, kind='predicate')]
SEL = [ml.Lam('$ * 2', lambda x: x * 2), ml.Lam('$ + 1', lambda x: x + 1), ml.Lam('$', lambda x: x)]
KEY = [ml.Lam('$ / 2', lambda x: x // 2), ml.Lam('$', lambda x: x)]
BIN = [ml.Lam('$1 + $2', lambda a, b: a + b, 2), ml.Lam('$2', lambda a, b: b, 2)]

STAGES = [
    Stage('select', '.select({l})', lambda c, l: ml.m_select(c, l), SEL),
    Stage('where', '.where({l})', lambda c, l: ml.m_where(c, l), PRED),
    Stage('selectMany', '.selectMany({l})', lambda c, l: ml.m_select_many(c, l),
          [ml.Lam('[$, $ + 1]', lambda x: [x, x + 1]), ml.Lam('$', lambda x: x)]),
    Stage('skip', '.skip({n})', lambda c, n: ml.m_skip(c, n), arg='n'),
    Stage('take', '.take({n})', lambda c, n: ml.m_take(c, n), arg='n'),
    Stage('limit', '.limit({n})', lambda c, n: ml.m_take(c, n), arg='n'),
    Stage('takeWhile', '.takeWhile({l})', lambda c, l: ml.m_take_while(c, l), PRED_PREFIX + PRED[2:3]),
    Stage('skipWhile', '.skipWhile({l})', lambda c, l: ml.m_skip_while(c, l), PRED_PREFIX),
    Stage('append', '.append(1, 2)', lambda c: ml.m_append(c, 1, 2)),
    Stage('concat', '.concat([1, 2])', lambda c: ml.m_concat(c, [1, 2])),
    Stage('distinct', '.distinct()', lambda c: ml.m_distinct(c)),
    Stage('distinct-key', '.distinct({l})', lambda c, l: ml.m_distinct(c, l), KEY),
    Stage('enumerate', '.enumerate().select($[1])', lambda c: (x for i, x in ml.m_enumerate(c))),
    Stage('zip', '.zip(sequence()).select($[0])', lambda c: (r[0] for r in ml.m_zip(c, _count()))),
    Stage('zip-finite', '.zip([1, 2, 3, 4, 5, 6]).select($[0])', lambda c: (r[0] for r in ml.m_zip(c, [1, 2, 3, 4, 5, 6]))),
    Stage('accumulate', '.accumulate({l})', lambda c, l: ml.m_accumulate(c, l), BIN),
    Stage('insert', '.insert({n}, 9)', lambda c, n: ml.m_insert(c, n, 9), arg='n'),
    Stage('insertMany', '.insertMany({n}, [8, 9])', lambda c, n: ml.m_insert_many(c, n, [8, 9]), arg='n'),
    Stage('delete', '.delete({n}, 2)', lambda c, n: ml.m_delete(c, n, 2), arg='n'),
    Stage('replace', '.replace({n}, 9, 2)', lambda c, n: ml.m_replace(c, n, 9, 2), arg='n'),
    Stage('replaceMany', '.replaceMany({n}, [8, 9])', lambda c, n: ml.m_replace_many(c, n, [8, 9]), arg='n'),
    Stage('replace-wide', '.replace({n}, 9, 5)', lambda c, n: ml.m_replace(c, n, 9, 5), arg='n'),
    Stage('replaceMany-wide', '.replaceMany({n}, [8, 9], 4)', lambda c, n: ml.m_replace_many(c, n, [8, 9], 4), arg='n'),
    Stage('delete-wide', '.delete({n}, 5)', lambda c, n: ml.m_delete(c, n, 5), arg='n'),
    Stage('slice', '.slice({n}).select($[0])', lambda c, n: (ch[0] for ch in ml.m_slice(c, max(n, 1))), arg='n1'),
    Stage('memorize', '.memorize()', lambda c: ml.m_memorize(c)),
    Stage('member-projection', '.select({{a => $}}).a', lambda c: (x for x in c)),
    Stage('join-outer', '.join([1, 2], true, $1)', lambda c: ml.m_join_lazy(c, [1, 2], lambda a, b: True, lambda a, b: a)),
    Stage('plus', '({t} + [1])', lambda c: ml.m_concat(c, [1])),
]
TERMINALS = [
    Stage('first', '.first()', lambda c: ml.m_first(c)),
    Stage('any', '.any({l})', lambda c, l: ml.m_any(c, l), PRED[:2]),
    Stage('any-none', '.any()', lambda c: ml.m_any(c)),
    Stage('all', '.all({l})', lambda c, l: ml.m_all(c, l), PRED_PREFIX + PRED[:2]),
    Stage('indexOf', '.indexOf({n})', lambda c, n: ml.m_index_of(c, n), arg='n'),
    Stage('indexWhere', '.indexWhere({l})', lambda c, l: ml.m_index_where(c, l), PRED[:2]),
    Stage('contains', '.contains({n})', lambda c, n: n in c, arg='n'),
    Stage('in', '', None),   # placeholder, handled specially
]


def _count():
    i = 0
    while True:
        yield i
        i += 1


class Mon:
    def __init__(self, rec):
        self.rec = rec
        self.eng = yq.engine({'yaql.convertOutputData': False})
        root = yaql.create_context()
        self.ctx = root.create_child_context()
        self.ticker = hooks.Ticker()
        self.ticker.register(self.ctx)
        # the legacy function set (its filtering indexer `coll[predicate]` is a streaming operator too)
        from yaql import legacy as ylegacy
        self.legacy_eng = ylegacy.YaqlFactory().create(options={'yaql.convertOutputData': False})
        self.legacy_ctx = ylegacy.create_context().create_child_context()
        self.ticker.register(self.legacy_ctx)
        self.reach = hooks.Reach()
        for o in cat.build(root):
            mod = o.code_owner.__module__.split('.')[-1]
            if mod in ('queries', 'collections'):
                self.reach.watch(o.code_owner, 'payload.%s.%s' % (mod, o.code_owner.__name__))
        self.reach.start()

    def close(self):
        for k in list(self.reach.counts):
            if self.reach.counts[k]:
                self.rec.count('pr.' + k[len('payload.'):], self.reach.counts[k])
            del self.reach.counts[k]
        self.reach.stop()


def build_case(rng):
    """-> (text, model_builder(source)->(value or iterator, lams), terminal?, op names)"""
    nst = rng.choice((1, 1, 2, 2, 3, 4))
    stages = []
    text = '$src'
    lam_id = 0
    names = []
    for i in range(nst):
        st = rng.choice(STAGES)
        lam = None
        n = None
        if st.lam:
            lam = rng.choice(st.lam).fresh()
            lam_id += 1
            text += st.tmpl.format(l='tick(%d, %s)' % (lam_id, lam.text))
        elif st.arg:
            n = rng.choice((0, 1, 2, 3, 5)) if st.arg == 'n' else rng.choice((1, 2, 3))
            text += st.tmpl.format(n=n)
        elif '{t}' in st.tmpl:
            text = st.tmpl.format(t=text)
        else:
            text += st.tmpl.format()
        stages.append((st, lam, n))
        names.append(st.name)
    term = None
    if rng.random() < 0.3:
        t = rng.choice(TERMINALS[:-1])
        lam = None
        n = None
        if t.lam:
            lam = rng.choice(t.lam).fresh()
            lam_id += 1
            text += t.tmpl.format(l='tick(%d, %s)' % (lam_id, lam.text))
        elif t.arg:
            n = rng.choice((0, 2, 5, 9))
            text += t.tmpl.format(n=n)
        else:
            text += t.tmpl.format()
        term = (t, lam, n)
        names.append(t.name)

    def model(source):
        cur = source
        lams = []
        for st, lam, n in stages:
            if lam is not None:
                lams.append(lam)
                cur = st.model(cur, lam)
            elif n is not None:
                cur = st.model(cur, n)
            else:
                cur = st.model(cur)
        if term is not None:
            t, lam, n = term
            if lam is not None:
                lams.append(lam)
                return (lambda: t.model(cur, lam)), lams
            if n is not None:
                return (lambda: t.model(cur, n)), lams
            return (lambda: t.model(cur)), lams
        return cur, lams
    return text, model, term is not None, names


def pull(it, k):
    """pull k results; -> (list of results, ended?)"""
    out = []
    it = iter(it)
    for _ in range(k):
        try:
            out.append(next(it))
        except StopIteration:
            return out, True
    return out, False


def legacy_cases(rng):
    """the legacy filtering indexer and its combinations with the streaming operators of the legacy context"""
    from vmon.model import library as ml
    K = rng.choice((0, 3, 7))
    lam = ml.Lam('$ > %d' % K, lambda x: x > K)

    def flt(src, lam=None):
        l = lam or ml.Lam('', lambda x: x > K)
        return (x for x in src if l(x)), [l]
    yield '$src[$ > %d]' % K, lambda src: (flt(src)[0], []), False, ['legacy-filter-indexer']
    l1 = lam.fresh()
    yield '$src[tick(1, $ > %d)]' % K, (lambda src, l1=l1: flt(src, l1)), False, ['legacy-filter-indexer']
    yield '$src[$ > %d].select($ * 2)' % K, lambda src: ((x * 2 for x in flt(src)[0]), []), False, ['legacy-filter-indexer', 'select']
    yield '$src.select($ + 1)[$ > %d]' % K, lambda src: (flt(x + 1 for x in src)[0], []), False, ['legacy-filter-indexer', 'select']
    yield '$src[$ > %d][$ mod 2 = 0]' % K, lambda src: ((x for x in flt(src)[0] if x % 2 == 0), []), False, ['legacy-filter-indexer']


def run_case(mon, rec, text, model, terminal, names, k, label, world='default'):
    rec.count('cases')
    for nme in names:
        rec.count('op.' + nme)
    if terminal:
        rec.count('terminal')
    else:
        rec.count('k.%d' % k)
    # --- model side
    msrc = hooks.CountingSource(None, hard_cap=HARD_CAP, name='model-src')
    try:
        m, lams = model(msrc)
        if terminal:
            mval = ('value', m())
        else:
            mval = ('value',) + pull(m, k)
    except hooks.PullBudgetBreached:
        rec.count('cases.model_needs_unbounded_input')
        rec.case((text, k), nontrivial=False)
        return
    except Exception as e:
        mval = ('error', type(e).__name__)
        lams = lams if 'lams' in dir() else []
    mpulls = msrc.pulls
    mticks = sum(l.calls for l in lams)
    # --- real side
    # the source reaches the expression either as a context variable (one-shot iterator) or as host DATA handed to
    # evaluate() - a re-iterable object with __iter__ only, which input conversion has to leave lazy
    mon.turn = getattr(mon, 'turn', 0) + 1
    as_data = world == 'default' and mon.turn % 4 == 0
    rsrc = (hooks.ReiterableSource if as_data else hooks.CountingSource)(None, hard_cap=HARD_CAP, name='$src')
    ctx = (mon.legacy_ctx if world == 'legacy' else mon.ctx).create_child_context()
    if not as_data:
        ctx['src'] = rsrc
    else:
        rec.count('src.as_host_data')
    mon.ticker.reset()
    rp = {'kind': 'case', 'text': text, 'k': k, 'label': label, 'world': world}
    try:
        if as_data:
            st = mon.eng(text.replace('$src', '$.src'))
            res = st.evaluate(data={'src': rsrc, 'other': 1}, context=ctx)
        else:
            st = (mon.legacy_eng if world == 'legacy' else mon.eng)(text)
            res = st.evaluate(context=ctx)
        if terminal:
            rval = ('value', res)
        else:
            rval = ('value',) + pull(res, k)
    except hooks.PullBudgetBreached:
        rec.case((text, k), nontrivial=True)
        rec.violation('eager-consumption:%s' % '+'.join(sorted(set(names))[:3]),
                      '%s (k=%s) kept pulling from the endless source past %d items; the lazy model needs %d' % (
                          text, 'terminal' if terminal else k, HARD_CAP, mpulls), rp)
        return
    except Exception as e:
        rval = ('error', type(e).__name__)
    rticks = len(mon.ticker.reset())
    rec.count('ticks.observed', rticks)
    if rsrc.pulls:
        rec.count('src.pulled_cases')
    rec.case((text, k), nontrivial=rsrc.pulls > 0)
    if rval[0] != mval[0] or (rval[0] == 'value' and not _same(rval[1:], mval[1:])):
        rec.count('cases.values_differ')
        rec.inconc('C14 harness: streamed values differ for %s (k=%s): yaql %r, model %r' % (text, k, rval, mval))
        return
    rec.count('cases.compared')
    if rsrc.pulls > mpulls + 1:
        rec.violation('source-overconsumed:%s' % _culprit(names),
                      '%s: pulling %s needed %d source items, the lazy model needs %d (+1 allowed)' % (
                          text, 'the terminal result' if terminal else '%d result(s)' % k, rsrc.pulls, mpulls), rp)
    if rticks > mticks + 1:
        rec.violation('lambda-overapplied:%s' % _culprit(names),
                      '%s: pulling %s applied lambdas %d times, the lazy model needs %d (+1 allowed)' % (
                          text, 'the terminal result' if terminal else '%d result(s)' % k, rticks, mticks), rp)


def _culprit(names):
    return '+'.join(sorted(set(names)))[:80]


def _same(a, b):
    def norm(v):
        if isinstance(v, tuple):
            return [norm(x) for x in v]
        if isinstance(v, list):
            return [norm(x) for x in v]
        return v
    return norm(list(a)) == norm(list(b))


def plan(tier, seed):
    thorough = tier == 'thorough'
    return [{'name': 'pipe-%d' % p, 'kind': 'pipe', 'count': 10000 if thorough else 400, 'timeout': 3000}
            for p in range(16)] + [{'name': 'single', 'kind': 'single'}]


def run_shard(spec, rec):
    mon = Mon(rec)
    try:
        rng = rng_for(spec['seed'], 'c14', spec['name'])
        if spec['kind'] == 'single':
            # every operator alone, every k
            for st in STAGES + TERMINALS[:-1]:
                for rep in range(6):
                    for k in (0, 1, 2, 5):
                        text, model, terminal, names = _single(rng, st)
                        run_case(mon, rec, text, model, terminal, names, k, 'single')
            for rep in range(10):
                for text, model, terminal, names in legacy_cases(rng):
                    for k in (0, 1, 2, 5):
                        run_case(mon, rec, text, model, terminal, names, k, 'legacy', world='legacy')
            rec.sample({'text': text, 'k': k})
            return
        for i in range(spec['count']):
            text, model, terminal, names = build_case(rng)
            k = rng.choice((0, 1, 1, 2, 5, 5))
            run_case(mon, rec, text, model, terminal, names, k, spec['name'])
            if i % 150 == 0:
                rec.sample({'text': text, 'k': 'terminal' if terminal else k})
    finally:
        mon.close()


def _single(rng, st):
    lam = rng.choice(st.lam).fresh() if st.lam else None
    n = None
    text = '$src'
    if lam:
        text += st.tmpl.format(l='tick(1, %s)' % lam.text)
    elif st.arg:
        n = rng.choice((0, 1, 2, 3, 5)) if st.arg == 'n' else rng.choice((1, 2, 3))
        text += st.tmpl.format(n=n)
    elif '{t}' in st.tmpl:
        text = st.tmpl.format(t=text)
    else:
        text += st.tmpl.format()
    terminal = st in TERMINALS

    def model(source):
        if lam is not None:
            r = (lambda: st.model(source, lam)) if terminal else st.model(source, lam)
            return r, [lam]
        if n is not None:
            r = (lambda: st.model(source, n)) if terminal else st.model(source, n)
            return r, []
        r = (lambda: st.model(source)) if terminal else st.model(source)
        return r, []
    return text, model, terminal, [st.name]


def replay(data, rec):
    print('C14 cases are regenerated from their seed; re-running the shard %s' % data.get('label'))
    spec = {'name': data.get('label', 'pipe-0'), 'kind': 'single' if data.get('label') == 'single' else 'pipe',
            'count': 400, 'seed': rec.spec['seed'], 'tier': rec.spec['tier']}
    run_shard(spec, rec)
    rec.violations = [v for v in rec.violations if v['replay'].get('text') == data['text']][:2] or rec.violations[:2]


def selftest():
    ml.selftest()
