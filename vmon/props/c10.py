"""C10 - data round-trips and every result is finalised into plain data.

Monitors: (A) `$` on generated host documents equals an independent
canonicaliser written from the option descriptions; (B) for generated
expressions producing every kind of library value (nested, as set elements and
dict keys) whose raw evaluation succeeds, finalisation must succeed under all 4
option combinations and a recursive type census of the result must contain
plain data only.
"""
import collections.abc
import datetime
import re
import sys
import traceback

import yaql
from yaql import yaql_interface
from yaql.language import utils as yutils
from yaql.standard_library import queries as yqueries

from vmon import hooks
from vmon import yq
from vmon.core import rng_for

RULE = ('a case is (document or expression, option combination, access path); distinct by (text/doc repr, options, '
        'path); non-trivial = the value contains at least one container (the census / canonicaliser has something to '
        'decide)')
ASSUMPTIONS = [
    '"evaluation succeeds" is established by evaluating the same statement on an engine copy with '
    'yaql.convertOutputData false',
    'non-container leaves (numbers, strings, datetimes, regex objects) are plain scalars for this property',
    'element order of sets converted to lists is unspecified and compared as a multiset',
]
REQUIRED = {'roundtrip.checked': 200, 'expr.finalised': 500, 'census.containers': 1000,
            'branch.mapping': 50, 'branch.set': 50, 'branch.sequence': 50, 'branch.iterable': 50, 'branch.leaf': 50,
            'path.interface': 20, 'path.interface_unconverted_engine': 10, 'path.stub': 50}

OPTION_SETS = [
    {'yaql.convertTuplesToLists': True, 'yaql.convertSetsToLists': False},
    {'yaql.convertTuplesToLists': True, 'yaql.convertSetsToLists': True},
    {'yaql.convertTuplesToLists': False, 'yaql.convertSetsToLists': False},
    {'yaql.convertTuplesToLists': False, 'yaql.convertSetsToLists': True},
]


# ---- independent canonicaliser (from extending_yaql.rst option descriptions) -------------

class Unhashable(Exception):
    def __init__(self, container, elem):
        self.container = container
        self.elem = elem


def canonical(d, opts):
    tuples_to_lists = opts['yaql.convertTuplesToLists']
    sets_to_lists = opts['yaql.convertSetsToLists']
    if isinstance(d, str):
        return d
    if isinstance(d, collections.abc.Mapping):
        out = {}
        for k, v in d.items():
            ck = canonical(k, opts)
            try:
                hash(ck)
            except TypeError:
                raise Unhashable('dict-key', type(ck).__name__)
            out[ck] = canonical(v, opts)
        return out
    if isinstance(d, (set, frozenset)):
        elems = [canonical(x, opts) for x in d]
        if sets_to_lists:
            return ('$setlist', elems)
        for e in elems:
            try:
                hash(e)
            except TypeError:
                raise Unhashable('set-element', type(e).__name__)
        return set(elems)
    if isinstance(d, (list, tuple)):
        elems = [canonical(x, opts) for x in d]
        return elems if tuples_to_lists else tuple(elems)
    if isinstance(d, Gen):
        return [canonical(x, opts) for x in d.items]
    if isinstance(d, View):
        return ('$view', [canonical(x, opts) for x in d.elements()])
    return d


def same(got, want):
    """type-aware deep equality; ('$setlist', elems) on the want side matches a list in any order"""
    if isinstance(want, tuple) and len(want) == 2 and want[0] == '$setlist':
        if type(got) is not list or len(got) != len(want[1]):
            return False
        rest = list(want[1])
        for g in got:
            for i, w in enumerate(rest):
                if same(g, w):
                    del rest[i]
                    break
            else:
                return False
        return True
    if isinstance(want, tuple) and len(want) == 2 and want[0] == '$view':
        if type(got) not in (list, set, tuple):
            return False
        return same(list(got), ('$setlist', want[1]))
    if type(got) is not type(want):
        return False
    if isinstance(want, dict):
        if len(got) != len(want):
            return False
        for k, v in want.items():
            found = False
            for gk, gv in got.items():
                if same(gk, k) and same(gv, v):
                    found = True
                    break
            if not found:
                return False
        return True
    if isinstance(want, (list, tuple)):
        return len(got) == len(want) and all(same(g, w) for g, w in zip(got, want))
    if isinstance(want, set):
        if len(got) != len(want):
            return False
        rest = list(want)
        for g in got:
            for i, w in enumerate(rest):
                if same(g, w):
                    del rest[i]
                    break
            else:
                return False
        return True
    if isinstance(want, float):
        return repr(got) == repr(want)
    return got == want


class Gen:
    """a one-shot generator in a host document (rebuilt per evaluation)"""

    def __init__(self, items):
        self.items = items

    def __repr__(self):
        return 'Gen(%r)' % (self.items,)


class View:
    """a dict view (items/keys/values) or a frozenset in a host document: a read-only iterable that is
    not one of the container kinds the statement names.  Only the second sentence of the property is
    judged strictly for these (finalisation succeeds and yields plain data); the value may come back
    as a list (what the code does: any non-sequence iterable is read as a lazy sequence) or as a set."""

    def __init__(self, kind, payload):
        self.kind = kind            # items | keys | values | frozenset
        self.payload = payload      # dict, or list of hashable elements for frozenset

    def __repr__(self):
        return 'View(%r, %r)' % (self.kind, self.payload)

    def elements(self):
        if self.kind == 'items':
            return [(k, v) for k, v in self.payload.items()]
        if self.kind == 'keys':
            return list(self.payload.keys())
        if self.kind == 'values':
            return list(self.payload.values())
        return list(self.payload)


def realize(d):
    """build the actual host value (fresh generators, fresh mutable containers)"""
    if isinstance(d, Gen):
        return (realize(x) for x in d.items)
    if isinstance(d, View):
        if d.kind == 'frozenset':
            return frozenset(realize_key(x) for x in d.payload)
        return getattr(realize(d.payload), d.kind)()
    if isinstance(d, dict):
        return {realize_key(k): realize(v) for k, v in d.items()}
    if isinstance(d, list):
        return [realize(x) for x in d]
    if isinstance(d, tuple) and type(d) is not tuple:
        return d                      # a tuple subclass of the host (namedtuple, struct_time): handed over as it is
    if isinstance(d, tuple):
        return tuple(realize(x) for x in d)
    if isinstance(d, (set, frozenset)):
        return type(d)(realize_key(x) for x in d)
    return d


def realize_key(k):
    return k


def gen_doc(rng, depth, budget, hashable=False):
    r = rng.random()
    if depth <= 0 or budget[0] <= 0 or r < 0.3:
        budget[0] -= 1
        return rng.choice((None, True, False, 0, 1, -7, 2 ** 70, 1.5, -0.0, '', 'a', 'é中', 'key'))
    budget[0] -= 1
    if hashable:
        # host frozensets are not generated: convert_input_data treats only mutable sets as sets and the
        # statement speaks of "sets" (characterised, not specified - see DESIGN.md)
        return tuple(gen_doc(rng, depth - 1, budget, True) for _ in range(rng.randrange(0, 3)))
    k = rng.random()
    if k < 0.35:
        return [gen_doc(rng, depth - 1, budget) for _ in range(rng.randrange(0, 4))]
    if k < 0.65:
        keys = ['a', 'b', 'c', 1, 2, None, True, 1.5]
        out = {}
        for _ in range(rng.randrange(0, 4)):
            if rng.random() < 0.08:
                key = gen_doc(rng, 1, budget, True)
            else:
                key = rng.choice(keys)
            out[key] = gen_doc(rng, depth - 1, budget)
        return out
    if k < 0.78:
        return tuple(gen_doc(rng, depth - 1, budget) for _ in range(rng.randrange(0, 4)))
    if k < 0.9:
        pick = rng.random()
        elems = [gen_doc(rng, depth - 1, budget, True) if pick < 0.15 else rng.choice((1, 2, 'x', None, 2.5, 'y'))
                 for _ in range(rng.randrange(0, 4))]
        return set(elems)
    if k < 0.95:
        return Gen([gen_doc(rng, depth - 1, budget) for _ in range(rng.randrange(0, 3))])
    kind = rng.choice(('items', 'items', 'keys', 'values', 'frozenset'))
    if kind == 'frozenset':
        pick = rng.random()
        return View(kind, list({gen_doc(rng, 1, budget, True) if pick < 0.4 else rng.choice((1, 2, 'x', None, 'y'))
                                for _ in range(rng.randrange(0, 4))}))
    return View(kind, {rng.choice(('a', 'b', 1, None)): gen_doc(rng, depth - 1, budget) for _ in range(rng.randrange(0, 3))})


# ---- expression generator ---------------------------------------------------------------

LEAVES = ['1', "'a'", 'null', 'true', '2.5', '$doc.a', '$n']


def gen_expr(rng, depth, hashable_only=False):
    if depth <= 0 or rng.random() < 0.25:
        return rng.choice(LEAVES)

    def X():
        return gen_expr(rng, depth - 1)

    def H():
        return gen_expr(rng, depth - 1, True)
    forms = [
        lambda: '[%s, %s]' % (X(), X()),
        lambda: '[%s]' % X(),
        lambda: '[]',
        lambda: '{k => %s}' % X(),
        lambda: '{%s => %s}' % (H(), X()),
        lambda: 'dict(a => %s, b => %s)' % (X(), X()),
        lambda: 'set(%s, %s)' % (H(), H()),
        lambda: '[%s, %s].toSet()' % (H(), H()),
        lambda: 'set()',
        lambda: 'list(%s, %s)' % (X(), X()),
    ]
    if not hashable_only:
        forms += [
            lambda: '[%s, %s].select($)' % (X(), X()),
            lambda: '[%s, %s].where(true)' % (X(), X()),
            lambda: '{a => %s, b => %s}.keys()' % (X(), X()),
            lambda: '{a => %s}.values()' % X(),
            lambda: '{a => %s, b => 2}.items()' % X(),
            lambda: '{%s => 1}.keys()' % H(),
            lambda: '[3, 1, 2].orderBy($)',
            lambda: '[[2, %s], [1, %s]].orderBy($[0])' % (X(), X()),
            lambda: '[[1, 2], [1, 1]].orderBy($[0]).thenByDescending($[1])',
            lambda: '[1, 2, 3].groupBy($ mod 2)',
            lambda: '[%s].zip([%s])' % (X(), X()),
            lambda: '[%s, %s].enumerate()' % (X(), X()),
            lambda: '[1, 2].toDict($, %s)' % X(),
            lambda: '[%s].memorize()' % X(),
            lambda: 'range(2)',
            lambda: '[%s, %s].reverse()' % (X(), X()),
            lambda: '[%s].selectMany([$, $])' % X(),
            lambda: '[%s].append(%s)' % (X(), X()),
            lambda: '[%s, %s].skip(1)' % (X(), X()),
            lambda: '[1, 2].splitAt(1)',
            lambda: '[1, 1, 2].distinct()',
            lambda: '$doc',
            lambda: '$doc.values()',
            lambda: '$doc.items().select($)',
            lambda: '[%s].concat([%s])' % (X(), X()),
            lambda: "'a b'.split(' ')",
            lambda: "'ab'.toCharArray()",
            lambda: '[%s].accumulate([$1, $2])' % X(),
            lambda: '[%s, %s].takeWhile(true)' % (X(), X()),
            lambda: '%s + %s' % ('[%s]' % X(), '[%s].select($)' % X()),
            lambda: '{a => %s}.set(b, %s)' % (X(), X()),
            lambda: '[%s].insert(0, %s)' % (X(), X()),
            lambda: 'let(q => %s) -> $q' % X(),
        ]
    return rng.choice(forms)()


# ---- census -------------------------------------------------------------------------------

SCALARS = (type(None), bool, int, float, str, datetime.datetime, datetime.timedelta, type(re.compile('')),
           datetime.tzinfo)


def census(v, opts, path, rec, bad):
    t = type(v)
    if isinstance(v, SCALARS):
        rec.count('census.leaves')
        return
    rec.count('census.containers')
    if t is dict:
        for k, x in v.items():
            census(k, opts, path + '.key', rec, bad)
            census(x, opts, path + '.value', rec, bad)
        return
    if t is list:
        for x in v:
            census(x, opts, path + '[]', rec, bad)
        return
    if t is tuple:
        if opts['yaql.convertTuplesToLists']:
            bad.append(('tuple', path))
        for x in v:
            census(x, opts, path + '()', rec, bad)
        return
    if t is set:
        if opts['yaql.convertSetsToLists']:
            bad.append(('set', path))
        for x in v:
            census(x, opts, path + '{}', rec, bad)
        return
    if isinstance(v, yutils.FrozenDict):
        bad.append(('FrozenDict', path))
    elif isinstance(v, frozenset):
        bad.append(('frozenset', path))
    elif isinstance(v, yqueries.OrderingIterable):
        bad.append(('OrderingIterable', path))
    elif isinstance(v, collections.abc.Iterator):
        bad.append(('iterator:' + t.__name__, path))
    elif isinstance(v, (collections.abc.KeysView, collections.abc.ValuesView, collections.abc.ItemsView)):
        bad.append(('dict-view:' + t.__name__, path))
    elif isinstance(v, collections.abc.Mapping):
        bad.append(('mapping:' + t.__name__, path))
    elif isinstance(v, collections.abc.Iterable):
        bad.append(('iterable:' + t.__name__, path))
    else:
        rec.count('census.other_leaf')


def has_container(v):
    return not isinstance(v, SCALARS)


class Mon:
    def __init__(self, rec):
        self.rec = rec
        base = yq.engine()
        # every option combination reached in the three ways a host can set it: options of a new engine, a copy of an
        # engine that was created with the opposite values, per-call options on such an engine
        self.engines = []
        for i, o in enumerate(OPTION_SETS):
            opposite = yq.engine({k: not v for k, v in o.items()})
            self.engines.append((o, base.copy(o)))
            self.engines.append((o, opposite.copy(o)))
            self.engines.append((o, (lambda t, opposite=opposite, o=o: opposite(t, options=o))))
            self.engines.append((o, yq.engine(dict(o))))
        self.raw = base.copy({'yaql.convertOutputData': False})
        # YaqlInterface finalises whatever Statement.evaluate leaves, so through that path the engine's own
        # yaql.convertOutputData switch must not matter
        self.engines_raw = [(dict(o, **{'yaql.convertOutputData': False}), base.copy(dict(o, **{'yaql.convertOutputData': False})))
                            for o in OPTION_SETS]
        self.ctx = yaql.create_context()
        self.reach = hooks.Reach()
        self.reach.watch(yutils.convert_output_data, 'convert_output_data', callback=self._branch)
        self.reach.watch(yutils.convert_input_data, 'convert_input_data')
        self.reach.start()

    def _branch(self, code):
        f = sys._getframe(2)
        obj = f.f_locals.get('obj')
        if isinstance(obj, collections.abc.Mapping):
            b = 'mapping'
        elif isinstance(obj, collections.abc.Set):
            b = 'set'
        elif isinstance(obj, (tuple, list)):
            b = 'sequence'
        elif yutils.is_iterable(obj):
            b = 'iterable'
        else:
            b = 'leaf'
        self.rec.count('branch.' + b)

    def close(self):
        self.reach.flush(self.rec)
        self.reach.stop()

    def classify_exc(self, e):
        """mechanism of a finalisation failure"""
        if isinstance(e, TypeError) and 'unhashable' in str(e):
            container = 'unknown'
            tb = e.__traceback__
            while tb is not None:
                if tb.tb_frame.f_code is yutils.convert_output_data.__code__:
                    obj = tb.tb_frame.f_locals.get('obj')
                    if isinstance(obj, collections.abc.Mapping):
                        container = 'dict-key'
                    elif isinstance(obj, collections.abc.Set):
                        container = 'set-element'
                tb = tb.tb_next
            m = re.search(r"unhashable type: '(\w+)'", str(e))
            return 'finalize-unhashable:%s:%s' % (container, m.group(1) if m else '?')
        site = 'unknown'
        for fs in traceback.extract_tb(e.__traceback__):
            if '/yaql/' in fs.filename:
                site = fs.name
        return 'finalize-raises:%s:%s' % (type(e).__name__, site)

    # ---- A: round trip of `$` ------------------------------------------------------------
    def roundtrip(self, doc, path='statement'):
        rec = self.rec
        for opts, eng in self.engines:
            if path == 'interface' and not hasattr(eng, 'options'):
                continue
            rec.count('roundtrip.checked')
            rec.case(('rt', repr(doc), tuple(sorted(opts.items())), path), nontrivial=has_container(doc))
            try:
                want = canonical(doc, opts)
                want_exc = None
            except Unhashable as u:
                want, want_exc = None, u
            try:
                if path == 'interface':
                    rec.count('path.interface')
                    yi = yaql_interface.YaqlInterface(self.ctx.create_child_context(), eng)
                    got = yi('$1', realize(doc))
                else:
                    got = eng('$').evaluate(data=realize(doc), context=self.ctx.create_child_context())
            except Exception as e:
                mech = self.classify_exc(e)
                if want_exc is None and mech.startswith('finalize-unhashable'):
                    mech = 'roundtrip-raises-but-canonical-form-exists:' + mech
                rec.violation(mech, '`$` on document %r with %r raised %s: %s' % (doc, opts, type(e).__name__, e),
                              {'kind': 'roundtrip', 'doc': repr(doc), 'path': path})
                continue
            if want_exc is not None:
                rec.violation('roundtrip-succeeds-where-no-plain-form-exists',
                              '`$` on %r with %r returned %r' % (doc, opts, got), {'kind': 'roundtrip', 'doc': repr(doc), 'path': path})
                continue
            if not same(got, want):
                rec.violation('roundtrip-differs', '`$` on document %r with %r gives %r, canonical form is %r' % (
                    doc, opts, got, want), {'kind': 'roundtrip', 'doc': repr(doc), 'path': path})

    # ---- B: finalisation of expression results -----------------------------------------------
    def expression(self, text, doc, path='statement'):
        rec = self.rec

        def ctx():
            c = self.ctx.create_child_context()
            c['doc'] = yutils.convert_input_data(realize(doc))
            c['n'] = 7
            return c
        try:
            self.raw(text).evaluate(context=ctx())
        except Exception:
            rec.count('expr.raw_evaluation_failed')
            return
        for opts, eng in (self.engines + self.engines_raw if path == 'interface' else self.engines):
            if path == 'interface' and not hasattr(eng, 'options'):
                continue
            key = ('expr', text, repr(doc), tuple(sorted(opts.items())), path)
            try:
                if path == 'interface':
                    rec.count('path.interface')
                    if opts.get('yaql.convertOutputData') is False:
                        rec.count('path.interface_unconverted_engine')
                    yi = yaql_interface.YaqlInterface(ctx(), eng)
                    got = yi(text)
                else:
                    got = eng(text).evaluate(context=ctx())
            except Exception as e:
                rec.case(key, nontrivial=True)
                rec.count('expr.finalisation_failed')
                rec.violation(self.classify_exc(e), 'evaluation of %s succeeds unfinalised, but with %r finalisation raises %s: %s' % (
                    text, opts, type(e).__name__, e), {'kind': 'expr', 'text': text, 'doc': repr(doc), 'path': path})
                continue
            rec.count('expr.finalised')
            rec.case(key, nontrivial=has_container(got))
            bad = []
            census(got, opts, '$', rec, bad)
            for what, where in bad[:3]:
                rec.violation('non-plain-data-in-result:%s' % what.split(':')[0],
                              '%s with %r returns %s at %s (result %r)' % (text, opts, what, where, got),
                              {'kind': 'expr', 'text': text, 'doc': repr(doc), 'path': path})


STUB_CALLS = [
    # (description, lambda yi, doc: value) - function and method stubs of YaqlInterface
    ('yi.list(gen, tuple)', lambda yi, d: yi.list((x for x in [1, (2, 3)]), (4, {5}))),
    ('yi.dict([[k, (1, 2)]])', lambda yi, d: yi.dict([['k', (1, 2)], ['s', {1, 2}]])),
    ('yi.set(1, 2)', lambda yi, d: yi.set(1, 2)),
    ('yi.on(doc).items()', lambda yi, d: yi.on(d).items()),
    ('yi.on(doc).keys()', lambda yi, d: yi.on(d).keys()),
    ('yi.on(doc).values()', lambda yi, d: yi.on(d).values()),
    ('yi.on([3, 1]).orderBy', lambda yi, d: yi.on([3, 1, 2]).reverse()),
    ('yi.on([1, 2]).zip([3, 4])', lambda yi, d: yi.on([1, 2]).zip([3, 4])),
    ('yi.on([1, 2]).toSet()', lambda yi, d: yi.on([1, 2]).toSet()),
    ('yi.on([[1, 2]]).toDict', lambda yi, d: yi.on([1, 2]).memorize()),
    ('yi.on(doc).set(k, (1, 2))', lambda yi, d: yi.on(d).set('k', (1, [2, {3}]))),
    ('yi.range(3)', lambda yi, d: yi.range(3)),
    ('yi(expr, doc)', lambda yi, d: yi('$1.items().select($)', d)),
    ('yi(expr, k=doc)', lambda yi, d: yi('[$k.keys(), $k.values(), $k]', k=d)),
]


def stubs(mon, rec):
    doc = {'a': [1, {'b': 2}], 'c': (3, 4)}
    for opts, eng in mon.engines + mon.engines_raw:
        if not hasattr(eng, 'options'):
            continue
        for desc, f in STUB_CALLS:
            yi = yaql_interface.YaqlInterface(mon.ctx.create_child_context(), eng)
            rec.count('path.stub')
            key = ('stub', desc, tuple(sorted(opts.items())))
            try:
                got = f(yi, doc)
            except Exception as e:
                in_final = any(fs.name == 'convert_output_data' for fs in traceback.extract_tb(e.__traceback__))
                if not in_final:
                    rec.count('stub.call_rejected')         # the call itself is not valid: nothing to finalise
                    continue
                rec.case(key, nontrivial=True)
                rec.violation(mon.classify_exc(e), 'YaqlInterface call %s with %r raises %s: %s' % (desc, opts, type(e).__name__, e),
                              {'kind': 'stub', 'desc': desc})
                continue
            rec.case(key, nontrivial=has_container(got))
            bad = []
            census(got, opts, '$', rec, bad)
            for what, where in bad[:3]:
                rec.violation('non-plain-data-in-result:%s' % what.split(':')[0],
                              'YaqlInterface call %s with %r returns %s at %s (result %r)' % (desc, opts, what, where, got),
                              {'kind': 'stub', 'desc': desc})


def prepared_context(mon, rec, rng):
    """one converted document bound once in a prepared context (create_context(data=doc)) and finalised again and
    again - by engines with different options, before and after the host edited an earlier result: every result is the
    canonical form of the document under the options in force, and results are independent objects"""
    import collections as _c
    import time as _time
    Row = _c.namedtuple('Row', 'id name')
    docs = [gen_doc(rng, 3, [20]) for _ in range(6)] + [
        {'tags': {1, 2}, 'pair': (1, (2, 3)), 'rows': [(1, 'a')], 'nested': {'k': (1, 2)}},
        {'row': Row(1, 'a'), 'rows': [Row(2, 'b'), Row(3, 'c')], 't': _time.struct_time((2020, 1, 2, 3, 4, 5, 6, 7, 0))},
        [Row(1, 'x'), (1, 2)], Row(5, (6, 7))]
    for doc in docs:
        if 'Gen(' in repr(doc) or 'View(' in repr(doc):
            continue            # one-shot parts of a document can be read once
        try:
            ctx = yaql.create_context(data=realize(doc))
        except Exception:
            continue
        order = list(mon.engines)
        rng.shuffle(order)
        for opts, eng in order[:8]:
            rec.count('roundtrip.checked')
            rec.count('roundtrip.prepared_context')
            rec.case(('prepared', repr(doc), tuple(sorted(opts.items()))), nontrivial=has_container(doc))
            try:
                want = canonical(plain_tuples(doc), opts)
            except Unhashable:
                continue
            try:
                got = eng('$').evaluate(context=ctx)
            except Exception as e:
                rec.violation(mon.classify_exc(e), '`$` on a context prepared with %r, options %r, raised %s: %s' % (
                    doc, opts, type(e).__name__, e), {'kind': 'prepared', 'doc': repr(doc)})
                continue
            if not same(got, want):
                rec.violation('roundtrip-differs:prepared-context', '`$` on a context prepared with %r gives %r under %r, canonical form is %r' % (
                    doc, got, opts, want), {'kind': 'prepared', 'doc': repr(doc)})
            # the host edits what it got; the next result must not show the edit
            if isinstance(got, dict):
                got['edited-by-host'] = 1
            elif isinstance(got, list):
                got.append('edited-by-host')


def plain_tuples(d):
    """tuple subclasses of the host (namedtuples, struct_time) are tuples"""
    if isinstance(d, tuple) and type(d) is not tuple:
        return tuple(plain_tuples(x) for x in d)
    if isinstance(d, tuple):
        return tuple(plain_tuples(x) for x in d)
    if isinstance(d, list):
        return [plain_tuples(x) for x in d]
    if isinstance(d, dict):
        return {k: plain_tuples(v) for k, v in d.items()}
    return d


def plan(tier, seed):
    thorough = tier == 'thorough'
    shards = []
    for p in range(8 if thorough else 4):
        shards.append({'name': 'docs-%d' % p, 'kind': 'docs', 'count': 5000 if thorough else 300})
    for p in range(16 if thorough else 8):
        shards.append({'name': 'exprs-%d' % p, 'kind': 'exprs', 'count': 2500 if thorough else 250})
    shards.append({'name': 'fixed', 'kind': 'fixed'})
    return shards


FIXED_EXPRS = ['{a => 1}.items()', 'set([1, 2])', '{[1, 2] => 3}', '[{a => 1}.keys()]', '{a => 1}.keys()',
               '[1, 2].toSet()', 'set({a => 1})', '[3, 1].orderBy($).thenBy($)', '[[1].select($)]',
               '{a => [1].select($)}', '[1, 2].groupBy($)', 'set(set(1))', '[set(1)]', '{set(1) => 2}', '$doc',
               '[1,2].select($).memorize()', "regex('a').searchAll('aa')", 'now()', 'timespan(1)', "regex('a')",
               '[1].zip([2])', '{a => {b => [1, {c => set(1)}]}}']


def run_shard(spec, rec):
    mon = Mon(rec)
    try:
        rng = rng_for(spec['seed'], 'c10', spec['name'])
        if spec['kind'] == 'docs':
            for i in range(spec['count']):
                doc = gen_doc(rng, rng.choice((1, 2, 3, 4)), [rng.choice((5, 15, 30))])
                mon.roundtrip(doc, 'interface' if i % 5 == 4 else 'statement')
                if i % 100 == 0:
                    rec.sample({'kind': 'roundtrip', 'doc': repr(doc)})
        elif spec['kind'] == 'exprs':
            for i in range(spec['count']):
                text = gen_expr(rng, rng.choice((1, 2, 2, 3)))
                doc = {'a': [1, {'b': 2}], 'c': (3, 4)}
                mon.expression(text, doc, 'interface' if i % 5 == 4 else 'statement')
                if i % 100 == 0:
                    rec.sample({'kind': 'expr', 'text': text})
        else:
            prepared_context(mon, rec, rng)
            stubs(mon, rec)
            for text in FIXED_EXPRS:
                mon.expression(text, {'a': [1, {'b': 2}], 'c': (3, 4)})
                mon.expression(text, {'a': [1, {'b': 2}], 'c': (3, 4)}, 'interface')
            for doc in ([], {}, [1, [2, [3, {'a': None}]]], {'a': {'b': {'c': [1, 2.5, 'x']}}}, (1, 2), {1, 2},
                        Gen([1, Gen([2])]), {(1, 2): 3}, [{(1, 2)}],
                        {'s': {1, 2}, 't': (1, [2])}, 'str', 5, None, [[], {}, (), set()],
                        {'pairs': View('items', {'a': 1, 'b': [2]})}, [View('keys', {'a': 1})], View('values', {'a': {'b': 1}}),
                        {'f': View('frozenset', [1, 'x'])}, [View('frozenset', [(1, 2), ()])], View('items', {})):
                mon.roundtrip(doc)
                mon.roundtrip(doc, 'interface')
    finally:
        mon.close()


def replay(data, rec):
    mon = Mon(rec)
    try:
        try:
            doc = eval(data.get('doc', 'None'), {'Gen': Gen, 'View': View, 'frozenset': frozenset, 'set': set})
        except Exception:
            doc = None
        if data['kind'] == 'prepared':
            prepared_context(mon, rec, rng_for(0, 'c10', 'fixed'))
            rec.violations = [v for v in rec.violations if v['replay'].get('doc') == data.get('doc')][:3]
        elif data['kind'] == 'stub':
            stubs(mon, rec)
            rec.violations = [v for v in rec.violations if v['replay'].get('desc') == data.get('desc')][:3]
        elif data['kind'] == 'roundtrip':
            mon.roundtrip(doc, data.get('path', 'statement'))
        else:
            mon.expression(data['text'], doc, data.get('path', 'statement'))
    finally:
        mon.close()
