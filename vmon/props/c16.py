"""C16 - literals denote exactly the values they spell.

Monitors: (1) round trip parse(spell(s, q)).value == s for every BMP code
point (alone and embedded) and generated strings in the three quote styles,
checked both on the Constant node in the tree and on the evaluated value;
(2) escape forms against Python's own literal evaluation of the same quoted
text; (3) numerals against int()/float(); (4) true/false/null; (5) keywords
denote their own text, __words are rejected.
"""
import ast
import unicodedata
import warnings

import yaql
from yaql.language import exceptions as yexc
from yaql.language import expressions as yexpr
from yaql.language import lexer as ylexer

from vmon import hooks
from vmon import yq
from vmon.core import rng_for

RULE = ('a case is one literal (string value x quote style, escape form, numeral text, keyword) read back through '
        'the real lexer/parser (batched: one list literal of up to 200 literals per parse) and evaluated; distinct by '
        '(kind, style, literal text); non-trivial = every case except the empty string')
ASSUMPTIONS = [
    'spell(s, q) = s with backslash and the quote character backslash-escaped (verbatim: only the back quote)',
    'escape forms are judged only where the quoted text is also a valid Python string literal (ast.literal_eval)',
    'numerals are capped at 4000 digits (interpreter int-conversion limit is 4300)',
]
REQUIRED = {'reach.t_QUOTED_STRING': 100, 'reach.t_DOUBLE_QUOTED_STRING': 100, 'reach.t_QUOTED_VERBATIM_STRING': 100,
            'reach.t_NUMBER': 100, 'reach.t_KEYWORD_STRING': 100, 'reach.decode_escapes': 100,
            'checked.string': 1000, 'checked.escape_vs_python': 100, 'checked.int': 50, 'checked.float': 50,
            'checked.keyword': 50, 'checked.dunder_rejected': 5, 'checked.constants': 3}
EXHAUSTIVE = 'every code point U+0000..U+FFFF alone and embedded (a<c>b) in each of the three quote styles'

STYLES = {"'": 'single', '"': 'double', '`': 'verbatim'}


def spell(s, q):
    if q == '`':
        return q + s.replace('`', '\\`') + q
    return q + s.replace('\\', '\\\\').replace(q, '\\' + q) + q


def verbatim_unspellable(s):
    """odd run of backslashes immediately before a back quote or at the end"""
    run = 0
    for ch in s + '`':
        if ch == '\\':
            run += 1
        else:
            if ch == '`' and run % 2 == 1:
                return True
            run = 0
    return False


class Mon:
    def __init__(self, rec):
        self.rec = rec
        self.eng = yq.engine()
        self.ctx = yaql.create_context()
        # literals denote the same values whichever flavour of engine / context reads them
        from yaql import legacy as ylegacy
        self.worlds = [('default', self.eng, self.ctx), ('legacy', ylegacy.YaqlFactory().create(), ylegacy.create_context()),
                       ('delegates', yq.engine(allow_delegates=True), yaql.create_context(delegates=True)),
                       ('keyword-operator-colon', yq.engine(keyword_operator=':='), self.ctx),
                       ('no-keyword-operator', yq.engine(keyword_operator=None), self.ctx), ('default', self.eng, self.ctx)]
        self.turn = 0
        self.reach = hooks.Reach()
        for n in ('t_QUOTED_STRING', 't_DOUBLE_QUOTED_STRING', 't_QUOTED_VERBATIM_STRING', 't_NUMBER',
                  't_KEYWORD_STRING'):
            self.reach.watch(getattr(ylexer.Lexer, n), n)
        self.reach.watch(ylexer.decode_escapes, 'decode_escapes')
        self.reach.start()

    def close(self):
        self.reach.flush(self.rec)
        self.reach.stop()

    def read_batch(self, texts):
        """parse '[t1, t2, ...]' -> (list of constant nodes, list of evaluated values) or raises"""
        text = '[' + ', '.join(texts) + ']'
        name, eng, ctx = self.pick(text)
        st = eng(text)
        node = yq.unwrap(st.expression)
        args = [yq.unwrap(a) for a in node.args]
        values = st.evaluate(context=ctx.create_child_context())
        return args, list(values)

    def pick(self, text=''):
        self.turn += 1
        w = self.worlds[self.turn % len(self.worlds)]
        if '=>' in text and 'keyword' in w[0]:
            w = self.worlds[0]
        self.rec.count('world.' + w[0])
        return w

    def read_one(self, text, world=None):
        name, eng, ctx = self.pick(text) if world is None else world
        st = eng(text)
        node = yq.unwrap(st.expression)
        return node, st.evaluate(context=ctx.create_child_context())

    def strings(self, items, q, family):
        """items: list of python strings; checks the round trip in style q"""
        rec = self.rec
        for i in range(0, len(items), 200):
            chunk = items[i:i + 200]
            texts = [spell(s, q) for s in chunk]
            try:
                nodes, values = self.read_batch(texts)
                if len(nodes) != len(chunk):
                    raise ValueError('batch of %d literals parsed to %d elements' % (len(chunk), len(nodes)))
                pairs = list(zip(chunk, texts, nodes, values))
            except Exception:
                pairs = []
                for s, t in zip(chunk, texts):   # isolate the offender(s)
                    try:
                        n, v = self.read_one(t)
                        pairs.append((s, t, n, v))
                    except Exception as e:
                        pairs.append((s, t, e, None))
            for s, t, n, v in pairs:
                rec.case((family, q, t), nontrivial=s != '')
                rec.count('checked.string')
                rec.count('style.' + STYLES[q])
                if isinstance(n, Exception):
                    self.string_violation(s, q, t, 'does not parse: %s: %s' % (type(n).__name__, str(n)[:100]))
                elif not (type(n) is yexpr.Constant and type(n.value) is str and n.value == s):
                    self.string_violation(s, q, t, 'reads back as %r' % (getattr(n, 'value', n),))
                elif not (type(v) is str and v == s):
                    self.string_violation(s, q, t, 'evaluates to %r' % (v,))

    def string_violation(self, s, q, t, what):
        if q == '`' and verbatim_unspellable(s):
            mech = 'verbatim-unspellable:odd-backslash-run-before-delimiter'
        else:
            mech = 'string-roundtrip:%s' % STYLES[q]
        self.rec.violation(mech, 'value %r spelled %s in %s style %s' % (s, t, STYLES[q], what),
                           {'kind': 'string', 'value': s, 'style': q})

    def escape_vs_python(self, text):
        """text: a quoted ' or " literal; judged only when Python accepts the same text"""
        rec = self.rec
        try:
            with warnings.catch_warnings():
                warnings.simplefilter('ignore')
                want = ast.literal_eval(text)
        except (SyntaxError, ValueError):
            rec.count('escape.not_a_python_literal')
            return
        if not isinstance(want, str):
            return
        rec.case(('escape', text), nontrivial=True)
        rec.count('checked.escape_vs_python')
        try:
            n, v = self.read_one(text)
        except Exception as e:
            rec.violation('escape-decoding:does-not-parse', 'literal %s is Python %r but yaql raises %s: %s' % (
                text, want, type(e).__name__, str(e)[:100]), {'kind': 'escape', 'text': text})
            return
        got = getattr(n, 'value', n)
        if not (type(got) is str and got == want and v == want):
            rec.violation('escape-decoding:value-differs', 'literal %s denotes %r in Python, yaql reads %r / evaluates %r' % (
                text, want, got, v), {'kind': 'escape', 'text': text})

    def numeral(self, text):
        rec = self.rec
        is_float = '.' in text
        want = float(text) if is_float else int(text)
        rec.case(('num', text), nontrivial=True)
        rec.count('checked.float' if is_float else 'checked.int')
        for form, neg in ((text, False), ('-' + text, True), (' ' + text + ' ', False)):
            try:
                n, v = self.read_one(form)
            except Exception as e:
                rec.violation('numeral:does-not-parse', 'numeral %s raises %s: %s' % (
                    form[:80], type(e).__name__, str(e)[:100]), {'kind': 'num', 'text': text})
                return
            if neg:
                n = yq.unwrap(n.args[0]) if isinstance(n, yexpr.UnaryOperator) else n
                w2 = -want
            else:
                w2 = want
            got = getattr(n, 'value', None)
            ok = type(got) is type(want) and got == want and type(v) is type(w2) and v == w2
            if is_float and ok:
                ok = repr(v) == repr(w2)
            if not ok:
                rec.violation('numeral:value-differs:%s' % ('float' if is_float else 'int'),
                              'numeral %s denotes %r (%s) but yaql reads %r / evaluates %r' % (
                                  form[:80], w2 if len(text) < 40 else '<long>', type(want).__name__,
                                  got if len(text) < 40 else type(got), v if len(text) < 40 else type(v)),
                              {'kind': 'num', 'text': text})
                return

    def keywords(self, words):
        rec = self.rec
        for i in range(0, len(words), 200):
            chunk = words[i:i + 200]
            try:
                nodes, values = self.read_batch(chunk)
                if len(nodes) != len(chunk):
                    raise ValueError
                pairs = list(zip(chunk, nodes, values))
            except Exception:
                pairs = []
                for w in chunk:
                    try:
                        n, v = self.read_one(w)
                        pairs.append((w, n, v))
                    except Exception as e:
                        pairs.append((w, e, None))
            for w, n, v in pairs:
                rec.case(('kw', w), nontrivial=True)
                rec.count('checked.keyword')
                if isinstance(n, Exception) or not (type(n) is yexpr.KeywordConstant and n.value == w and v == w):
                    rec.violation('keyword:not-own-text', 'keyword %r gives %r / %r' % (w, getattr(n, 'value', n), v),
                                  {'kind': 'kw', 'word': w})

    def dunder(self, word):
        rec = self.rec
        rec.case(('dunder', word), nontrivial=True)
        rec.count('checked.dunder_rejected')
        for form in (word, '$.' + word, '[' + word + ']', 'x => ' + word, 'f(' + word + ')'):
            try:
                self.eng(form)
            except yexc.YaqlParsingException:
                continue
            rec.violation('keyword:dunder-accepted', 'text %r with the __-prefixed word %r is accepted' % (form, word),
                          {'kind': 'dunder', 'word': word})
            return

    def constants(self):
        rec = self.rec
        # every constant in every engine flavour (not left to the rotation)
        for text, want, world in [(t, w_, wd) for t, w_ in (('true', True), ('false', False), ('null', None))
                                  for wd in self.worlds[:-1]]:
            rec.case(('const', text, world[0]), nontrivial=True)
            rec.count('checked.constants')
            n, v = self.read_one(text, world)
            ok = type(n) is yexpr.Constant and n.value is want and v is want
            n2, v2 = self.read_one('[%s, {%s => %s}]' % (text, text, text), world if 'keyword' not in world[0] else self.worlds[0])
            v2 = list(v2) if isinstance(v2, tuple) else v2      # (the legacy flavour builds tuples)
            ok = ok and v2 == [want, {want: want}] and type(v2[0]) is type(want)
            if not ok:
                rec.violation('constant:wrong-value', '%s denotes %r / %r' % (text, getattr(n, 'value', n), v),
                              {'kind': 'const', 'text': text})
        # ... and in every place a word can stand, whatever the shape of the rest of the text (whole-text member
        # paths, blanks and line breaks around the dot, after a call, as argument, key, value, operand)
        shapes = ('$.%s', '$x.%s', '$.a.%s', '$.%s.b', '  $ .\n%s ', '$.a.b.c.%s', '($).%s', '$.items().%s', 'f(%s)', '$.f(%s)',
                  '[%s]', '[1, %s]', '{a => %s}', '{%s => 1}', '$x + %s', '%s = $x', 'not %s', '-%s' , '$.a?.%s', 'x => %s'
                  )
        for text, want, world in [(t, w_, wd) for t, w_ in (('true', True), ('false', False), ('null', None))
                                  for wd in self.worlds[:-1]]:
            for shape in shapes:
                form = shape % text
                if ('=>' in form or '?.' in form) and ('keyword' in world[0] or world[0] == 'legacy'):
                    continue
                try:
                    st = world[1](form)
                except yexc.YaqlParsingException:
                    rec.count('constants.shape_not_in_grammar')
                    continue
                rec.count('checked.constants')
                rec.count('checked.constants_in_shapes')
                rec.case(('const-shape', shape, text, world[0]), nontrivial=True)
                found = []
                stack = [st.expression]
                while stack:
                    nd = yq.unwrap(stack.pop())
                    if type(nd) is yexpr.KeywordConstant and nd.value == text:
                        found.append('keyword')
                    elif type(nd) is yexpr.Constant and nd.value is want and type(nd.value) is type(want):
                        found.append('constant')
                    stack.extend(a for a in (getattr(nd, 'args', None) or ()) if isinstance(a, yexpr.Expression))
                    stack.extend(a for a in (getattr(nd, 'source', None), getattr(nd, 'destination', None))
                                 if isinstance(a, yexpr.Expression))
                if found != ['constant']:
                    rec.violation('constant:not-the-constant-in-shape:%s' % shape.replace('%s', '_').strip(),
                                  '%r (%s flavour): the word %s stands for %r, not for the constant' % (form, world[0], text, found),
                                  {'kind': 'const', 'text': form})
        for text in ('True', 'False', 'Null', 'None', 'TRUE', 'nil'):
            n, v = self.read_one(text)
            rec.count('checked.constants')
            if not (type(n) is yexpr.KeywordConstant and v == text):
                rec.violation('constant:lookalike-not-keyword', '%s gives %r' % (text, v), {'kind': 'const', 'text': text})


def plan(tier, seed):
    thorough = tier == 'thorough'
    shards = []
    parts = 8
    for p in range(parts):
        shards.append({'name': 'bmp-%d' % p, 'kind': 'bmp', 'lo': p * 0x2000, 'hi': (p + 1) * 0x2000})
    shards.append({'name': 'astral', 'kind': 'astral', 'count': 20000 if thorough else 2000})
    for p in range(8 if thorough else 2):
        shards.append({'name': 'gen-%d' % p, 'kind': 'gen', 'count': 60000 if thorough else 5000})
    for p in range(8 if thorough else 2):
        shards.append({'name': 'esc-%d' % p, 'kind': 'esc', 'count': 40000 if thorough else 4000, 'part': p})
    shards.append({'name': 'num', 'kind': 'num', 'count': 30000 if thorough else 3000})
    shards.append({'name': 'kw', 'kind': 'kw', 'count': 50000 if thorough else 5000})
    if thorough:
        for p in range(4):
            shards.append({'name': 'escforms-%d' % p, 'kind': 'escforms', 'lo': p * 0x4000, 'hi': (p + 1) * 0x4000})
    return shards


def run_shard(spec, rec):
    mon = Mon(rec)
    try:
        globals()['_' + spec['kind']](spec, mon, rec)
    finally:
        mon.close()


def _bmp(spec, mon, rec):
    cps = [chr(c) for c in range(spec['lo'], spec['hi'])]
    for q in STYLES:
        mon.strings(cps, q, 'bmp-alone')
        mon.strings(['a' + c + 'b' for c in cps], q, 'bmp-embedded')
    rec.sample({'kind': 'string', 'style': 'single', 'value_codepoints': [97, spec['lo'] + 39, 98],
                'spelled': spell('a' + chr(spec['lo'] + 39) + 'b', "'")})
    if spec['lo'] == 0:
        mon.constants()


def _astral(spec, mon, rec):
    rng = rng_for(spec['seed'], 'c16', 'astral')
    cps = [chr(rng.randrange(0x10000, 0x110000)) for _ in range(spec['count'])]
    for q in STYLES:
        mon.strings(cps, q, 'astral-alone')
        mon.strings([c + 'x' + c for c in cps[:len(cps) // 4]], q, 'astral-embedded')


PIECES = ["'", '"', '`', '\\', '\\\\', "\\'", '\\"', '\\`', '\\n', '\\x41', '\\u0041', '\\U00000041', '\\101',
          '\\N{DIGIT ONE}', 'a', 'b', ' ', '\n', '\t', 'é', '中', '\U0001F600', '\\x', '\\u00', '\\8', '\\N{', '}',
          '$', ',', ']', '[', '(', ')', '=>', '0', '\x00', '\x7f', '\ud800', '%s', '{0}']


def _gen(spec, mon, rec):
    rng = rng_for(spec['seed'], 'c16', spec['name'])
    items = []
    for _ in range(spec['count']):
        n = rng.choice((0, 1, 1, 2, 3, 4, 6, 10))
        items.append(''.join(rng.choice(PIECES) for _ in range(n)))
    for q in STYLES:
        mon.strings(items, q, 'generated')
    rec.sample({'kind': 'string', 'value': items[5], 'spelled': {STYLES[q]: spell(items[5], q) for q in STYLES}})


ESC_PIECES = ['\\x41', '\\x7f', '\\xe9', '\\xff', '\\x00', '\\u0041', '\\u00e9', '\\u4e2d', '\\ud800', '\\uffff',
              '\\U00000041', '\\U0001F600', '\\U0010FFFF', '\\0', '\\7', '\\12', '\\101', '\\377', '\\400', '\\777',
              '\\1234', '\\N{DIGIT ONE}', '\\N{LATIN SMALL LETTER E WITH ACUTE}', '\\N{GRINNING FACE}', '\\\\', "\\'",
              '\\"', '\\a', '\\b', '\\f', '\\n', '\\r', '\\t', '\\v', '\\z', '\\8', '\\9', '\\ ', '\\e', '\\(', '\\$',
              '\\`', 'a', 'Z', '1', ' ', 'é', '中', '\U0001F600', 'x41', 'u0041', '{', '}', 'N', '\\\\x41', '\\\\u0041',
              '\\\\\\\\', '\\\\n', "\\\\\\'", '\t', '%', '#', '\\é', '\\中', '\\€', '\\\U0001F600', '\\ÿ', '\\Ā', '\\\\€', '\\\\\\中']


def _esc(spec, mon, rec):
    rng = rng_for(spec['seed'], 'c16', spec['name'])
    if spec['part'] == 0:
        for p in ESC_PIECES:
            for q in "'\"":
                for ctxt in ('%s', 'a%s', '%s1', 'a%sb', '%s%s'):
                    mon.escape_vs_python(q + (ctxt % ((p,) * ctxt.count('%s'))) + q)
    for i in range(spec['count']):
        n = rng.choice((1, 2, 2, 3, 4, 6))
        body = ''.join(rng.choice(ESC_PIECES) for _ in range(n))
        q = rng.choice("'\"")
        mon.escape_vs_python(q + body + q)
        if i % 1000 == 0:
            rec.sample({'kind': 'escape', 'text': q + body + q})


def _escforms(spec, mon, rec):
    """every BMP code point in each applicable escape form (thorough)"""
    for c in range(spec['lo'], spec['hi']):
        forms = ['\\u%04x' % c, '\\U%08x' % c, '\\u%04X' % c]
        if c < 256:
            forms += ['\\x%02x' % c, '\\%o' % c, '\\%03o' % c]
        try:
            forms.append('\\N{%s}' % unicodedata.name(chr(c)))
        except ValueError:
            pass
        for f in forms:
            mon.escape_vs_python("'" + f + "'")
            mon.escape_vs_python('"a' + f + 'b"')


def _num(spec, mon, rec):
    rng = rng_for(spec['seed'], 'c16', 'num')
    texts = ['0', '00', '007', '1', '9', '10', '123', str(2 ** 31), str(2 ** 63 - 1), str(2 ** 63), str(2 ** 64),
             str(10 ** 40), '0.0', '0.5', '1.0', '1.5', '00.50', '3.14159', '0.1', '0.30000000000000004',
             '123456789.123456789', '9007199254740993.0', '0.000001', '1.000000000000000000001',
             '179769313486231570000000000000000000000.5']
    for k in list(range(1, 60)) + [100, 308, 309, 310, 400, 1000, 2000, 3999, 4000]:
        texts.append('1' + '0' * k)              # 10**k
        texts.append('9' * k)                    # 10**k - 1
        texts.append('1' + '0' * (k - 1) + '1')  # 10**k + 1
        if k < 400:
            texts.append('1' + '0' * k + '.0')
            texts.append('0.' + '0' * k + '1')
    for _ in range(spec['count']):
        n = rng.choice((1, 2, 3, 5, 8, 15, 16, 17, 18, 19, 20, 30, 100))
        d = ''.join(rng.choice('0123456789') for _ in range(n))
        if rng.random() < 0.5:
            texts.append(d)
        else:
            m = rng.choice((1, 2, 3, 6, 15, 16, 17, 20, 40))
            texts.append(d + '.' + ''.join(rng.choice('0123456789') for _ in range(m)))
    for _ in range(spec['count'] // 10):
        # finite floats printed without exponent
        f = rng.choice((rng.random(), rng.uniform(0, 1e6), rng.uniform(0, 1e15), 2.0 ** rng.randrange(-60, 200),
                        rng.random() * 10 ** rng.randrange(-20, 25)))
        texts.append('%.*f' % (rng.choice((1, 3, 10, 17, 30, 60)), f))
        texts.append(format(f, 'f'))
    for t in texts:
        mon.numeral(t)
    rec.sample({'kind': 'numeral', 'texts': texts[40:46]})


def _letters(rng, n):
    out = []
    while len(out) < n:
        c = chr(rng.randrange(0x80, 0x30000))
        if unicodedata.category(c) in ('Lu', 'Ll', 'Lo', 'Lt', 'Lm'):
            out.append(c)
    return out


def _kw(spec, mon, rec):
    rng = rng_for(spec['seed'], 'c16', 'kw')
    reserved = {'true', 'false', 'null'} | {o[0] for o in mon.eng.factory.operators if o}
    ascii_start = 'abcdefghijklmnopqrstuvwxyzABCDEFGHIJKLMNOPQRSTUVWXYZ'
    ascii_rest = ascii_start + '0123456789_'
    uni = _letters(rng, 400)
    words = ['a', 'Z', '_', '_a', '_1', 'a_', 'a__b', 'a__', '_a_', 'x1', 'John', 'Snow', 'trueish', 'nullx', 'inn',
             'nota', 'orc', 'android', 'modx', 'in_', 'True', 'NULL', 'é', 'имя', '中文', '_é']
    for _ in range(spec['count']):
        r = rng.random()
        if r < 0.6:
            w = rng.choice(ascii_start + '_') + ''.join(rng.choice(ascii_rest) for _ in range(rng.choice((0, 1, 2, 5, 12))))
        else:
            w = rng.choice(uni + ['_']) + ''.join(rng.choice(uni + list(ascii_rest)) for _ in range(rng.choice((0, 1, 3, 8))))
        if w.startswith('__') or w in reserved:
            continue
        words.append(w)
    mon.keywords(words)
    rec.sample({'kind': 'keyword', 'words': words[26:34]})
    for w in ['__x', '__', '___', '__class__', '__init__', '__a1', '__é', '____x']:
        mon.dunder(w)
    for _ in range(200):
        mon.dunder('__' + ''.join(rng.choice(ascii_rest) for _ in range(rng.choice((0, 1, 4, 9)))))
    mon.constants()


def replay(data, rec):
    mon = Mon(rec)
    try:
        k = data['kind']
        if k == 'string':
            s = data['value']
            if isinstance(s, dict):
                s = ''.join(chr(c) for c in s['$str'])
            mon.strings([s], data['style'], 'replay')
            print('value %r spelled %s' % (s, spell(s, data['style'])))
        elif k == 'escape':
            mon.escape_vs_python(data['text'])
        elif k == 'num':
            mon.numeral(data['text'])
        elif k == 'kw':
            mon.keywords([data['word']])
        elif k == 'dunder':
            mon.dunder(data['word'])
        else:
            mon.constants()
    finally:
        mon.close()
