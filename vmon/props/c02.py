"""C02 - the operator table decides the parse tree.

Oracle: vmon.model.parser (precedence climbing over the generator's flat token
sequence, driven by the operator table only).  Workloads: exhaustive short
operator sequences on the default table, random longer sequences with nested
brackets/calls/indexers, legacy table, custom tables built through the public
insert_operator API (modelled independently as group edits).
"""
import itertools

import yaql
from yaql import legacy as ylegacy
from yaql.language import factory as yfactory
from yaql.language import parser as yparser

from vmon import hooks
from vmon import yq
from vmon.core import rng_for
from vmon.model import parser as mp

RULE = ('a case is (operator table, token sequence, whitespace rendering); distinct by rendered text + table id; '
        'non-trivial = the sequence contains at least two operators (binary/prefix/suffix/index) so that the '
        'table has to decide a grouping')
ASSUMPTIONS = [
    'the generator never emits token adjacency that lexes differently (e.g. "< =" as "<=", "1 . 5" as "1.5", word( as call)',
    'custom tables are kept only if every group is homogeneous (checked on the table by the harness)',
    'insert_operator is modelled as: new operator joins the group of the existing operator, or forms a new group '
    'directly below it when create_group is set; with no existing operator it goes to (a new group at) the top',
]
REQUIRED = {'reach.p_binary': 100, 'reach.p_unary': 20, 'reach._build_operator_table': 1,
            'tables.custom': 1, 'tables.legacy': 1, 'pairs.distinct_adjacent': 50}
EXHAUSTIVE = ('default table: every sequence of <= 2 (quick) / <= 3 (thorough) binary operators with every placement '
              'of <= 2 prefix operators (+ - not) on the operand slots')

WORD = set('abcdefghijklmnopqrstuvwxyzABCDEFGHIJKLMNOPQRSTUVWXYZ0123456789_')


def std_records():
    return list(yaql.YaqlFactory().operators)


def operand_pool():
    ops = []
    for n in 'abcd':
        ops.append(('$' + n, '(var $%s)' % n))
    ops.append(('$', '(var $)'))
    for n in ('x', 'yy', 'k_1'):
        ops.append((n, '(kw %s)' % n))
    ops.append(('1', '(const int 1)'))
    ops.append(('25', '(const int 25)'))
    ops.append(('1.5', '(const float 1.5)'))
    ops.append(("'s'", "(const str 's')"))
    ops.append(('"t"', "(const str 't')"))
    ops.append(('true', '(const bool True)'))
    ops.append(('null', '(const NoneType None)'))
    return ops


def _cls(ch):
    if ch in WORD or ch == '$':
        return 'W'
    if ch in "'\"`":
        return 'Q'
    if ch in '([{':
        return 'O'
    if ch in ')]}':
        return 'C'
    if ch == ',':
        return 'K'
    return 'S'


def can_join(a, b):
    """may token texts a and b be written without a separating space?
    conservative: symbol-symbol, word-word and word( are never joined."""
    ca, cb = _cls(a[-1]), _cls(b[0])
    if ca in 'OK' or cb in 'CK':
        return True
    if ca == 'S' and cb == 'S':
        return False
    if (a[-1] == '.' and b[0].isdigit()) or (b[0] == '.' and a[-1].isdigit()):
        return False
    if ca == 'S':
        return cb in 'WQO' and all(_cls(c) == 'S' for c in a)
    if cb == 'S':
        return ca in 'WQC' and all(_cls(c) == 'S' for c in b)
    if cb == 'O':
        return b[0] == '[' and ca in 'WC' and a[-1] != '$'
    return False


def render(tokens, rng=None):
    texts = []
    for t in tokens:
        k = t[0]
        if k == 'operand':
            texts.append(t[2])
        elif k == 'op':
            texts.append(t[1])
        elif k == 'func':
            texts.append(t[1] + '(')
        else:
            texts.append(k)
    out = texts[0]
    for prev, cur in zip(texts, texts[1:]):
        if rng is None:
            sep = ' '
        else:
            r = rng.random()
            if r < 0.35 and can_join(prev, cur):
                sep = ''
            elif r < 0.85:
                sep = ' '
            else:
                sep = rng.choice(('  ', '\n', '\t', ' \r\n '))
        out += sep + cur
    return out


def model_tokens(tokens):
    return [(t[0], t[1]) if t[0] in ('operand', 'op', 'func') else (t[0],) for t in tokens]


class TableCase:
    def __init__(self, name, factory):
        self.name = name
        self.factory = factory
        self.records = list(factory.operators)
        self.table = mp.Table(self.records)
        self.engine = factory.create()
        t = self.table
        self.binaries = sorted(t.binary)
        self.prefixes = sorted(t.prefix)
        self.suffixes = sorted(s for s in t.suffix if s not in t.binary)
        self.mapping = t.name_value


class Gen:
    def __init__(self, tc, rng):
        self.tc = tc
        self.rng = rng
        self.operands = operand_pool()

    def operand(self):
        text, sx = self.rng.choice(self.operands)
        return [('operand', sx, text)]

    def expr(self, depth, nops=None):
        rng = self.rng
        if nops is None:
            nops = rng.choice((0, 1, 1, 2, 2, 3, 4, 6))
        toks = self.unary_chain(depth)
        for _ in range(nops):
            toks.append(('op', rng.choice(self.tc.binaries)))
            toks += self.unary_chain(depth)
        return toks

    def unary_chain(self, depth):
        rng = self.rng
        toks = []
        while self.tc.prefixes and rng.random() < 0.25:
            toks.append(('op', rng.choice(self.tc.prefixes)))
        toks += self.primary(depth)
        while rng.random() < 0.2:
            if self.tc.suffixes and rng.random() < 0.5:
                toks.append(('op', rng.choice(self.tc.suffixes)))
            elif self.tc.table.index_power is not None and depth > 0:
                toks.append(('[',))
                toks += self.arglist(depth - 1, allow_named=False, allow_skip=False, minimum=1)
                toks.append((']',))
        return toks

    def primary(self, depth):
        rng = self.rng
        r = rng.random()
        if depth <= 0 or r < 0.55:
            return self.operand()
        if r < 0.72:
            return [('(',)] + self.expr(depth - 1) + [(')',)]
        if r < 0.88:
            # (names spelled like word operators are still function names when a parenthesis follows at once)
            return [('func', rng.choice(('f', 'gg', 'select', 'mod', 'in', 'and', 'or', 'not', 'xor', 'contains')))] + self.arglist(depth - 1) + [(')',)]
        if r < 0.95 and self.tc.table.index_power is not None:
            return [('[',)] + self.arglist(depth - 1, allow_named=False, allow_skip=False) + [(']',)]
        if '{}' in [r_[0] for r_ in self.tc.records if r_]:
            return [('{',)] + self.arglist(depth - 1, allow_skip=False) + [('}',)]
        return self.operand()

    def arglist(self, depth, allow_named=True, allow_skip=True, minimum=0):
        rng = self.rng
        n = rng.choice((0, 1, 1, 2, 3)) if minimum == 0 else rng.choice((1, 1, 2))
        slots = []
        for i in range(n):
            if allow_skip and i < n - 1 and rng.random() < 0.15:
                slots.append([])
            else:
                slots.append(self.expr(depth, rng.choice((0, 0, 1, 2))))
        named = []
        if allow_named and self.tc.mapping and rng.random() < 0.4:
            for _ in range(rng.choice((1, 2))):
                left = self.expr(depth, rng.choice((0, 0, 1)))
                if self.tc.suffixes and rng.random() < 0.35:
                    # a suffix operator standing directly in front of the keyword operator
                    left = left + [('op', rng.choice(self.tc.suffixes))]
                named.append(left + [('=>',)] + self.expr(depth, rng.choice((0, 1, 2))))
        # trailing empty slot before named args is legal (incomplete_arglist ',' named_arglist)
        if named and slots and allow_skip and rng.random() < 0.1:
            slots.append([])
        if slots and not slots[-1] and not named:
            slots[-1] = self.operand()
        toks = []
        first = True
        for s in slots + named:
            if not first:
                toks.append((',',))
            toks += s
            first = False
        return toks


class Checker:
    def __init__(self, rec):
        self.rec = rec
        self.adj = set()

    def check(self, tc, tokens, text):
        rec = self.rec
        try:
            want = mp.Parser(tc.table, model_tokens(tokens)).parse()
        except (mp.ModelParseError, RecursionError) as e:
            rec.inconc('generator produced a sequence the model rejects: %r (%s)' % (text[:100], e))
            return
        got = yq.parse_outcome(tc.engine, text)
        nops = sum(1 for t in tokens if t[0] in ('op', '['))
        rec.case((tc.name, text), nontrivial=nops >= 2)
        ops = [t[1] if t[0] == 'op' else t[0] for t in tokens if t[0] in ('op', '[')]
        for a, b in zip(ops, ops[1:]):
            self.adj.add((tc.name == 'default', a, b))
        if got != ('tree', want):
            rec.violation('tree-differs-from-table:%s' % tc.name.split('#')[0],
                          'table %s text %r parsed to %r, the table dictates %r' % (tc.name, text, got, want),
                          {'table': tc.name, 'records': [list(r) for r in tc.records], 'text': text,
                           'tokens': [list(t) for t in tokens], 'build': getattr(tc, 'build', None)})

    def flush(self):
        self.rec.count('pairs.distinct_adjacent', len(self.adj))


def default_tc():
    return TableCase('default', yaql.YaqlFactory())


def legacy_tc():
    return TableCase('legacy', ylegacy.YaqlFactory())


NEW_OPS = [('**', None), ('|>', None), ('@@', 'at_at'), ('===', None), ('xor', None), ('~', None), ('!', None),
           ('isNull', None), ('fact', 'factorial'), ('then', None),
           ('<>', 'ne2'), ('%', None), ('#', 'hash'), ('#>', None), ('##', 'hh')]
OT = yfactory.OperatorType


def custom_tc(rng, idx):
    """random sequence of insert_operator calls on a fresh factory; the model
    applies the documented meaning to its own group list."""
    # the factory may have been created without a keyword operator ('' and None both switch named arguments off)
    kwop = rng.choice(('=>', '=>', '', None))
    f = yaql.YaqlFactory() if kwop == '=>' else yaql.YaqlFactory(keyword_operator=kwop)
    groups = []     # model: list of groups, each a list of records
    cur = []
    for r in f.operators:
        if not r:
            groups.append(cur)
            cur = []
        else:
            cur.append(tuple(r))
    groups.append(cur)
    build = [] if kwop == '=>' else [['factory', kwop]]
    used = set()
    for _ in range(rng.randrange(1, 5)):
        sym, alias = rng.choice([o for o in NEW_OPS if o[0] not in used])
        used.add(sym)
        typ = rng.choice((OT.BINARY_LEFT_ASSOCIATIVE, OT.BINARY_LEFT_ASSOCIATIVE, OT.BINARY_RIGHT_ASSOCIATIVE,
                          OT.PREFIX_UNARY, OT.SUFFIX_UNARY))
        existing = [(r[0], r[1]) for g in groups for r in g if r[1] != OT.NAME_VALUE_PAIR]
        ex = None if rng.random() < 0.2 else rng.choice(existing)      # None: relative to the head of the table
        create_group = rng.random() < 0.6
        if typ == OT.SUFFIX_UNARY:
            create_group = True
        if ex is None:
            ex_sym, ex_bin = None, True
        else:
            ex_sym = ex[0]
            ex_bin = ex[1] in (OT.BINARY_LEFT_ASSOCIATIVE, OT.BINARY_RIGHT_ASSOCIATIVE)
        if rng.random() < 0.4:
            f.create()                 # a factory that already produced engines keeps accepting table edits
            build.append(['create'])
        f.insert_operator(ex_sym, ex_bin, sym, typ, create_group, alias)
        build.append([ex_sym, ex_bin, sym, typ, create_group, alias])
        rec_ = (sym, typ, alias)
        if ex is None:
            if create_group:
                groups.insert(0, [rec_])
                # the name/value pair record is not an operator; it stays with the first operator group
            else:
                groups[0].insert(0, rec_)
        else:
            gi = next(i for i, g in enumerate(groups) if any(r[0] == ex_sym and (
                (r[1] in (OT.BINARY_LEFT_ASSOCIATIVE, OT.BINARY_RIGHT_ASSOCIATIVE)) == ex_bin) and
                r[1] != OT.NAME_VALUE_PAIR for r in g))
            if create_group:
                groups.insert(gi + 1, [rec_])
            else:
                groups[gi].append(rec_)
    records = []
    for i, g in enumerate(groups):
        if i:
            records.append(())
        records.extend(g)
    table = mp.Table(records)
    if not table.homogeneous():
        return None
    try:
        tc = TableCase('custom#%d' % idx, f)
    except Exception as e:     # e.g. a table ply rejects; not the property's business
        return ('error', build, repr(e))
    tc.table = table           # the model's own idea of the table
    tc.records = records
    tc.build = build
    t = table
    tc.binaries = sorted(t.binary)
    tc.prefixes = sorted(t.prefix)
    tc.suffixes = sorted(s for s in t.suffix if s not in t.binary)
    return tc


def plan(tier, seed):
    thorough = tier == 'thorough'
    shards = []
    nb = 3 if thorough else 2
    parts = 16 if thorough else 4
    for p in range(parts):
        shards.append({'name': 'exh-%d' % p, 'kind': 'exh', 'nbin': nb, 'part': p, 'parts': parts, 'timeout': 3000})
    for p in range(8 if thorough else 4):
        shards.append({'name': 'rand-%d' % p, 'kind': 'rand', 'count': 40000 if thorough else 5000, 'table': 'default'})
    shards.append({'name': 'legacy', 'kind': 'rand', 'count': 40000 if thorough else 4000, 'table': 'legacy'})
    for p in range(16 if thorough else 4):
        shards.append({'name': 'custom-%d' % p, 'kind': 'custom', 'tables': 14 if thorough else 4,
                       'count': 2000 if thorough else 600, 'timeout': 3000})
    return shards


def run_shard(spec, rec):
    reach = hooks.Reach()
    started = False
    chk = Checker(rec)
    try:
        kind = spec['kind']
        reach.watch(yfactory.YaqlFactory._build_operator_table, '_build_operator_table')
        reach.watch(yfactory.YaqlFactory.insert_operator, 'insert_operator')
        reach.watch(yparser.Parser._generate_operator_funcs, '_generate_operator_funcs')
        # p_binary / p_unary are closures created per parser; their code objects are constants of
        # _generate_operator_funcs
        for const in yparser.Parser._generate_operator_funcs.__code__.co_consts:
            if hasattr(const, 'co_name') and const.co_name in ('p_binary', 'p_unary'):
                reach.watch(const, const.co_name)
        reach.start()
        started = True
        if kind == 'exh':
            _exhaustive(spec, rec, chk)
        elif kind == 'rand':
            tc = default_tc() if spec['table'] == 'default' else legacy_tc()
            rec.count('tables.' + spec['table'])
            _random(spec, rec, chk, tc)
        elif kind == 'custom':
            _custom(spec, rec, chk)
    finally:
        chk.flush()
        if started:
            reach.flush(rec)
            reach.stop()


def _exhaustive(spec, rec, chk):
    tc = default_tc()
    rec.count('tables.default')
    nb = spec['nbin']
    names = ['$a', '$b', '$c', '$d']
    prefixes = tc.prefixes
    idx = -1
    rng = rng_for(spec['seed'], 'c02', spec['name'])
    for k in range(1, nb + 1):
        slots = k + 1
        placements = [()]
        for s in range(slots):
            for p in prefixes:
                placements.append(((s, p),))
        for s1 in range(slots):
            for s2 in range(s1, slots):
                for p1 in prefixes:
                    for p2 in prefixes:
                        placements.append(((s1, p1), (s2, p2)))
        for seq in itertools.product(tc.binaries, repeat=k):
            idx += 1
            if idx % spec['parts'] != spec['part']:
                continue
            for pl in placements:
                toks = []
                for s in range(slots):
                    for (ps, pp) in pl:
                        if ps == s:
                            toks.append(('op', pp))
                    toks.append(('operand', '(var %s)' % names[s], names[s]))
                    if s < k:
                        toks.append(('op', seq[s]))
                text = render(toks, rng if (idx + len(pl)) % 3 == 0 else None)
                chk.check(tc, toks, text)
                rec.count('exhaustive.cases')
            if idx % 1500 == 0:
                rec.sample({'table': 'default', 'text': text})


def _random(spec, rec, chk, tc):
    rng = rng_for(spec['seed'], 'c02', spec['name'])
    g = Gen(tc, rng)
    for i in range(spec['count']):
        toks = g.expr(rng.choice((0, 1, 2, 3)), rng.choice((1, 2, 3, 3, 4, 5, 6, 8, 12)))
        text = render(toks, rng)
        chk.check(tc, toks, text)
        rec.count('random.cases')
        if i % 2500 == 0:
            rec.sample({'table': tc.name, 'text': text})


def _custom(spec, rec, chk):
    rng = rng_for(spec['seed'], 'c02', spec['name'])
    made = 0
    tries = 0
    while made < spec['tables'] and tries < spec['tables'] * 20:
        tries += 1
        tc = custom_tc(rng, tries)
        if tc is None:
            rec.count('tables.rejected_inhomogeneous')
            continue
        if isinstance(tc, tuple):
            rec.count('tables.rejected_by_yaql')
            continue
        tc.name = 'custom#%s-%d' % (spec['name'], tries)
        made += 1
        rec.count('tables.custom')
        g = Gen(tc, rng)
        for i in range(spec['count']):
            toks = g.expr(rng.choice((0, 1, 2)), rng.choice((1, 2, 3, 3, 4, 5, 6)))
            text = render(toks, rng)
            chk.check(tc, toks, text)
            rec.count('custom.cases')
        rec.sample({'table': tc.name, 'insert_operator_calls': tc.build, 'text': text})


def replay(data, rec):
    chk = Checker(rec)
    name = data['table']
    if name == 'default':
        tc = default_tc()
    elif name == 'legacy':
        tc = legacy_tc()
    else:
        f = yaql.YaqlFactory()
        for b in data['build']:
            if b[0] == 'factory':
                f = yaql.YaqlFactory(keyword_operator=b[1])
                continue
            if b == ['create']:
                f.create()
                continue
            f.insert_operator(*b)
        tc = TableCase(name, f)
        recs = [tuple(r) for r in data['records']]
        tc.table = mp.Table(recs)
        tc.records = recs
    toks = [tuple(t) for t in data['tokens']]
    chk.check(tc, toks, data['text'])
    print('text=%r\n yaql : %r\n model: %r' % (data['text'], yq.parse_outcome(tc.engine, data['text']),
                                              mp.Parser(tc.table, model_tokens(toks)).parse()))


def selftest():
    mp.selftest()
