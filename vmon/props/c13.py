"""C13 - collection and query functions agree with their reference model.

Oracle: vmon.model.library (one executable model per function, written from the
docstrings) + law monitors that need no model (stable sorted permutation,
order-preserving partition, skip/take recomposition, reverse involution,
De Morgan on any/all, toSet idempotence).
"""
import re

import yaql
from yaql.language import utils as yutils

from vmon import catalogue as cat
from vmon import hooks
from vmon import yq
from vmon.core import rng_for
from vmon.model import library as ml
from vmon.model import scalar as ms

RULE = ('a case is (function or pipeline, input collection kind and content, lambda and integer arguments); distinct '
        'by (expression text, inputs); non-trivial = the input collection is non-empty or the function is a constructor')
ASSUMPTIONS = [
    'both sides raising counts as agreement (error classes are compared only for StopIteration-documented functions)',
    'results over set inputs are compared as multisets (set iteration order is unspecified)',
    'negative positions/counts/lengths where the docstrings are silent are modelled after the observed behaviour '
    '(characterised in DESIGN.md), except list insertion at negative positions, which is not judged',
]
REQUIRED = {'world.no-queries-module': 50, 'world.delegates': 500, 'world.python-convention': 100, 'fn.*': 100, 'cases': 3000, 'agree.value': 2000, 'agree.error': 100, 'kind.iter': 300, 'kind.tuple': 300,
            'kind.set': 100, 'laws.checked': 300, 'pipelines': 300, 'pr.*': 90}

ELEMS_INT = [0, 1, 2, 3, -1, 5, 2, 1]


def gen_elems(rng, n, flavor):
    if flavor == 'int':
        return [rng.choice(ELEMS_INT) for _ in range(n)]
    if flavor == 'null':
        return [rng.choice(ELEMS_INT + [None, None]) for _ in range(n)]
    if flavor == 'str':
        return [rng.choice(['a', 'b', 'ab', '', 'c']) for _ in range(n)]
    if flavor == 'pair':
        return [[rng.choice([0, 1, 2]), rng.choice(['x', 'y', 'z'])] for _ in range(n)]
    if flavor == 'nested':
        return [rng.choice([[1, 2], [], [3], 1, [[4]], 0]) for _ in range(n)]
    if flavor == 'mixed':
        return [rng.choice([1, 'a', None, True, 2.5, [1]]) for _ in range(n)]
    if flavor == 'sets':
        # equal sets written in either element order are one value
        return [frozenset(p) for p in (rng.choice([(1, 2), (2, 1), (1,), (), (3, 1, 2), (2, 3, 1)]) for _ in range(n))]
    if flavor == 'dicts':
        # equal dicts written with their keys in either order are one value (for =, distinct, sets, groupBy keys, in)
        out = []
        for _ in range(n):
            a, b = rng.choice([1, 2]), rng.choice(['x', 'y'])
            out.append({'a': a, 'b': b} if rng.random() < 0.5 else {'b': b, 'a': a})
        return out
    raise ValueError(flavor)


class Coll:
    def __init__(self, elems, kind):
        self.elems = elems
        self.kind = kind            # tuple | set | iter
        self.unordered = kind == 'set'

    def model(self):
        import copy
        e = copy.deepcopy(self.elems)
        return iter(e) if self.kind == 'iter' else e

    def real(self):
        if any(isinstance(e, frozenset) for e in self.elems):
            conv = tuple(self.elems)          # yaql's own set values (a host frozenset would be read as a lazy sequence)
        else:
            conv = yutils.convert_input_data(self.elems)
        if self.kind == 'set':
            return frozenset(conv)
        if self.kind == 'iter':
            return iter(conv)
        return conv

    def desc(self):
        return '%s%r' % (self.kind, self.elems)


def gen_coll(rng, flavor=None, kinds=('tuple', 'tuple', 'iter', 'iter', 'set'), maxlen=8):
    flavor = flavor or rng.choice(['int', 'int', 'int', 'int', 'null', 'str', 'nested', 'mixed', 'dicts'])
    kind = rng.choice(kinds)
    n = rng.choice((0, 1, 2, 3, 4, 5, 8)) if maxlen >= 8 else rng.randrange(maxlen + 1)
    elems = gen_elems(rng, n, flavor)
    if kind == 'set':
        elems = [e for e in elems if not isinstance(e, (list, dict))]
        # a python set collapses 1/True/1.0; avoid the ambiguity
        seen = []
        for e in elems:
            if not any(e == s for s in seen):
                seen.append(e)
        elems = seen
    return Coll(elems, kind)


NV = ml.NOVALUE

# spellings of one sequence argument: a literal list, a lazily produced (one-shot) sequence, a
# materialised copy - a function taking "a collection" must treat them alike
SEQ_FLAVOURS = ('{0}', '{0}', '{0}.select($)', '{0}.toList()', '{0}.where(true)', '{0}.reverse().reverse()',
                '{0}.select($).memorize()')


def seq(rng, literal):
    return rng.choice(SEQ_FLAVOURS).format(literal)



class Spec:
    def __init__(self, name, build, sets_ok=False, stop_iteration=False):
        self.name = name
        self.build = build
        self.sets_ok = sets_ok
        self.stop_iteration = stop_iteration


def pick(rng, lams):
    return rng.choice(lams).fresh()


def rint(rng, c):
    n = len(c.elems)
    return rng.randrange(-(n + 2), n + 3)


def rpos(rng, c):
    n = len(c.elems)
    return rng.randrange(0, n + 3)


def _specs():
    S = []

    def add(name, build, **kw):
        S.append(Spec(name, build, **kw))

    def simple(name, tmpl, model, lams=None, sets_ok=False, flavor=None, stop=False):
        def build(rng, c):
            l = pick(rng, lams) if lams else None
            text = tmpl.format(l=l.text if l else '')
            return text, {}, (lambda cm: model(cm, l) if l else model(cm))
        add(name, build, sets_ok=sets_ok, stop_iteration=stop)
        return build
    simple('select', '$c.select({l})', lambda c, l: ml.m_select(c, l), ml.SELECTORS, sets_ok=True)
    simple('map', '$c.map({l})', lambda c, l: ml.m_select(c, l), ml.SELECTORS, sets_ok=True)
    simple('where', '$c.where({l})', lambda c, l: ml.m_where(c, l), ml.PREDICATES, sets_ok=True)
    simple('filter', '$c.filter({l})', lambda c, l: ml.m_where(c, l), ml.PREDICATES, sets_ok=True)
    simple('selectMany', '$c.selectMany({l})', lambda c, l: ml.m_select_many(c, l), ml.SELECTORS, sets_ok=True)
    simple('takeWhile', '$c.takeWhile({l})', lambda c, l: ml.m_take_while(c, l), ml.PREDICATES)
    simple('skipWhile', '$c.skipWhile({l})', lambda c, l: ml.m_skip_while(c, l), ml.PREDICATES)
    simple('distinct', '$c.distinct()', lambda c: ml.m_distinct(c), sets_ok=True)
    simple('distinct-key', '$c.distinct({l})', lambda c, l: ml.m_distinct(c, l), ml.SELECTORS)
    simple('any', '$c.any()', lambda c: ml.m_any(c), sets_ok=True)
    simple('any-pred', '$c.any({l})', lambda c, l: ml.m_any(c, l), ml.PREDICATES, sets_ok=True)
    simple('all', '$c.all()', lambda c: ml.m_all(c), sets_ok=True)
    simple('all-pred', '$c.all({l})', lambda c, l: ml.m_all(c, l), ml.PREDICATES, sets_ok=True)
    simple('first', '$c.first()', lambda c: ml.m_first(c), stop=True)
    simple('last', '$c.last()', lambda c: ml.m_last(c), stop=True)
    simple('single', '$c.single()', lambda c: ml.m_single(c), stop=True)
    simple('len', '$c.len()', lambda c: ml.yaql_len(c), sets_ok=True)
    simple('len-func', 'len($c)', lambda c: ml.yaql_len(c), sets_ok=True)
    simple('count', '$c.count()', lambda c: ml.yaql_len(c), sets_ok=True)
    simple('toList', '$c.toList()', lambda c: list(c), sets_ok=True)
    simple('toSet', '$c.toSet()', lambda c: set(ml._hashable(x) for x in c), sets_ok=True, flavor='int')
    simple('reverse', '$c.reverse()', lambda c: list(reversed(list(c))))
    simple('memorize', '$c.memorize()', lambda c: ml.m_memorize(c))
    simple('flatten', '$c.flatten()', lambda c: ml.m_flatten(c))
    simple('sum', '$c.sum()', lambda c: ml.m_sum(c))
    simple('max', '$c.max()', lambda c: ml.m_max(c))
    simple('min', '$c.min()', lambda c: ml.m_min(c))
    simple('indexWhere', '$c.indexWhere({l})', lambda c, l: ml.m_index_where(c, l), ml.PREDICATES)
    simple('lastIndexWhere', '$c.lastIndexWhere({l})', lambda c, l: ml.m_last_index_where(c, l), ml.PREDICATES)
    simple('sliceWhere', '$c.sliceWhere({l})', lambda c, l: ml.m_slice_where(c, l), ml.PREDICATES)
    simple('splitWhere', '$c.splitWhere({l})', lambda c, l: ml.m_split_where(c, l), ml.PREDICATES)
    simple('orderBy', '$c.orderBy({l})', lambda c, l: ml.m_order_by(c, [(l, True)]), ml.SELECTORS[:2] + ml.SELECTORS[4:7])
    simple('orderByDescending', '$c.orderByDescending({l})', lambda c, l: ml.m_order_by(c, [(l, False)]),
           ml.SELECTORS[:2] + ml.SELECTORS[4:7])
    simple('accumulate', '$c.accumulate({l})', lambda c, l: ml.m_accumulate(c, l), ml.BINARY)
    simple('aggregate', '$c.aggregate({l})', lambda c, l: ml.m_aggregate(c, l), ml.BINARY)
    simple('reduce', '$c.reduce({l})', lambda c, l: ml.m_aggregate(c, l), ml.BINARY)
    simple('toDict', '$c.toDict({l})', lambda c, l: ml.m_to_dict(c, l), [ml.SELECTORS[0], ml.SELECTORS[1], ml.SELECTORS[4]])
    simple('groupBy', '$c.groupBy({l})', lambda c, l: ml.m_group_by(c, l), [ml.SELECTORS[0], ml.SELECTORS[4], ml.SELECTORS[9]])
    simple('groupBy-value', '$c.groupBy({l}, [$])', lambda c, l: ml.m_group_by(c, l, lambda x: [x]),
           [ml.SELECTORS[0], ml.SELECTORS[4], ml.SELECTORS[9]])
    simple('groupBy-aggregator', '$c.groupBy({l}, $, $.len())', lambda c, l: ml.m_group_by(c, l, lambda x: x, lambda vs: len(vs)),
           [ml.SELECTORS[0], ml.SELECTORS[4], ml.SELECTORS[9]])
    simple('groupBy-aggregator-kw', '$c.groupBy({l}, aggregator => $.len())', lambda c, l: ml.m_group_by(c, l, None, lambda vs: len(vs)),
           [ml.SELECTORS[0], ml.SELECTORS[4], ml.SELECTORS[9]])
    simple('enumerate', '$c.enumerate()', lambda c: ml.m_enumerate(c))
    simple('isIterable', 'isIterable($c)', lambda c: True, sets_ok=True)
    simple('isList', 'isList($c)', lambda c: isinstance(c, list))
    simple('list-func', 'list($c, 7)', lambda c: ml.m_list(c, 7) if hasattr(c, '__next__') else [list(c), 7])
    simple('cycle-take', '$c.cycle().take(5)', lambda c: _cycle_take(c, 5))

    def w_int(name, tmpl, model, gen=rint, sets_ok=False):
        def build(rng, c):
            n = gen(rng, c)
            return tmpl.format(n=n), {}, (lambda cm: model(cm, n))
        add(name, build, sets_ok=sets_ok)
    w_int('skip', '$c.skip({n})', ml.m_skip)
    w_int('take', '$c.take({n})', ml.m_take)
    w_int('limit', '$c.limit({n})', ml.m_take)
    w_int('slice', '$c.slice({n})', lambda c, n: ml.m_slice(c, n) if n != 0 else iter(()))
    w_int('splitAt', '$c.splitAt({n})', ml.m_split_at)
    w_int('enumerate-start', '$c.enumerate({n})', ml.m_enumerate)
    w_int('delete', '$c.delete({n})', lambda c, n: ml.m_delete(c, n))
    w_int('indexer', '$c.toList()[{n}]', lambda c, n: _index(list(c), n))
    w_int('indexOf', '$c.indexOf({n})', ml.m_index_of, gen=lambda rng, c: rng.choice(ELEMS_INT))
    w_int('lastIndexOf', '$c.lastIndexOf({n})', ml.m_last_index_of, gen=lambda rng, c: rng.choice(ELEMS_INT))
    w_int('contains', '$c.contains({n})', lambda c, n: n in list(c), gen=lambda rng, c: rng.choice(ELEMS_INT), sets_ok=True)
    w_int('in', '{n} in $c', lambda c, n: n in list(c), gen=lambda rng, c: rng.choice(ELEMS_INT), sets_ok=True)
    w_int('append', '$c.append({n}, 9)', lambda c, n: ml.m_append(c, n, 9))
    w_int('first-default', '$c.first({n})', lambda c, n: ml.m_first(c, n))
    w_int('last-default', '$c.last({n})', lambda c, n: ml.m_last(c, n))
    w_int('sum-initial', '$c.sum({n})', lambda c, n: ml.m_sum(c, n))
    w_int('max-initial', '$c.max({n})', lambda c, n: ml.m_max(c, n))
    w_int('min-initial', '$c.min({n})', lambda c, n: ml.m_min(c, n))
    w_int('list-mul', '$c.toList() * {n}', lambda c, n: list(c) * n, gen=lambda rng, c: rng.randrange(-1, 4))
    w_int('mul-list', '{n} * $c.toList()', lambda c, n: list(c) * n, gen=lambda rng, c: rng.randrange(-1, 4))

    def w_two(name, tmpl, model, g1=rint, g2=rint):
        def build(rng, c):
            n, m = g1(rng, c), g2(rng, c)
            return tmpl.format(n=n, m=m), {}, (lambda cm: model(cm, n, m))
        add(name, build)
    cnt = lambda rng, c: rng.randrange(-2, len(c.elems) + 3)  # noqa: E731
    w_two('delete-count', '$c.delete({n}, {m})', ml.m_delete, g2=cnt)
    w_two('replace', '$c.replace({n}, {m})', lambda c, n, m: ml.m_replace(c, n, m), g2=lambda rng, c: 77)
    w_two('insert-iter', '$c.select($).insert({n}, {m})', lambda c, n, m: ml.m_insert(c, n, m), g1=rpos, g2=lambda rng, c: 77)
    w_two('insert-list', '$c.toList().insert({n}, {m})', lambda c, n, m: ml.m_insert(c, n, m), g1=rpos, g2=lambda rng, c: 77)
    def w_seq(name, tmpl, model):
        def build(rng, c):
            n, m = rint(rng, c), rng.randrange(-2, len(c.elems) + 3)
            return tmpl.format(n=n, m=m, s=seq(rng, '[77, 78]')), {}, (lambda cm: model(cm, n, m))
        add(name, build)
    w_seq('insertMany', '$c.insertMany({n}, {s})', lambda c, n, m: ml.m_insert_many(c, n, [77, 78]))
    w_seq('replaceMany', '$c.replaceMany({n}, {s})', lambda c, n, m: ml.m_replace_many(c, n, [77, 78]))
    w_seq('replaceMany-count', '$c.replaceMany({n}, {s}, {m})', lambda c, n, m: ml.m_replace_many(c, n, [77, 78], m))
    w_seq('concat3', '$c.concat({s}, [5])', lambda c, n, m: ml.m_concat(c, [77, 78], [5]))
    w_seq('zip-lit', '$c.zip({s})', lambda c, n, m: ml.m_zip(c, [77, 78]))
    w_seq('plus-lit', '$c + {s}', lambda c, n, m: ml.m_concat(c, [77, 78]))
    huge = lambda rng, c: rng.choice([2 ** 63 - 1, 2 ** 63, 2 ** 64 + 1, 10 ** 30])  # noqa: E731  (beyond any machine word; take/skip/list insert follow itertools/list and reject such numbers - not judged)
    w_two('insert-iter-huge', '$c.select($).insert({n}, {m})', lambda c, n, m: ml.m_insert(c, n, m), g1=huge, g2=lambda rng, c: 77)
    w_two('insertMany-huge', '$c.insertMany({n}, [{m}, 78])', lambda c, n, m: ml.m_insert_many(c, n, [m, 78]), g1=huge, g2=lambda rng, c: 77)
    w_two('delete-huge', '$c.delete({n}, {m})', ml.m_delete, g1=huge, g2=lambda rng, c: 1)
    w_two('replace-huge', '$c.replace({n}, 77)', lambda c, n, m: ml.m_replace(c, n, 77), g1=huge)
    w_two('aggregate-seed', '$c.aggregate($1 + $2, {n})', lambda c, n, m: ml.m_aggregate(c, lambda a, b: ml.op('+', a, b), n))
    w_two('accumulate-seed', '$c.accumulate($1 + $2, {n})', lambda c, n, m: ml.m_accumulate(c, lambda a, b: ml.op('+', a, b), n))
    w_two('range2', 'range({n}, {m})', lambda c, n, m: list(range(n, m)))
    w_two('repeat', '({n}).repeat({m})', lambda c, n, m: [n] * m if m >= 0 else _endless(), g2=lambda rng, c: rng.randrange(0, 4))

    def w_three(name, tmpl, model):
        def build(rng, c):
            n, m, k = rint(rng, c), rng.randrange(-2, len(c.elems) + 3), 77
            return tmpl.format(n=n, m=m, k=k), {}, (lambda cm: model(cm, n, m, k))
        add(name, build)
    w_three('replace-count', '$c.replace({n}, {k}, {m})', lambda c, n, m, k: ml.m_replace(c, n, k, m))
    w_three('range3', 'range({n}, {m}, 2)', lambda c, n, m, k: list(range(n, m, 2)))
    w_three('range3neg', 'range({n}, {m}, -1)', lambda c, n, m, k: list(range(n, m, -1)))

    def two_colls(name, tmpl, model, sets_ok=False, lams=None):
        def build(rng, c):
            d = gen_coll(rng, 'int', kinds=('tuple', 'iter'))
            l = pick(rng, lams) if lams else None
            text = tmpl.format(l=l.text if l else '')
            return text, {'d': d}, (lambda cm: model(cm, d.model(), l) if l else model(cm, d.model()))
        add(name, build, sets_ok=sets_ok)
    two_colls('concat', '$c.concat($d)', lambda c, d: ml.m_concat(c, d))
    two_colls('concat3', '$c.concat($d, [5])', lambda c, d: ml.m_concat(c, d, [5]))
    two_colls('plus', '$c + $d', lambda c, d: ml.m_concat(c, d))
    two_colls('zip', '$c.zip($d)', lambda c, d: ml.m_zip(c, d))
    two_colls('zip3', '$c.zip($d, [1, 2])', lambda c, d: ml.m_zip(c, d, [1, 2]))
    two_colls('zipLongest', '$c.zipLongest($d)', lambda c, d: ml.m_zip_longest([c, d]))
    two_colls('zipLongest-default', '$c.zipLongest($d, default => 0)', lambda c, d: ml.m_zip_longest([c, d], 0))
    two_colls('defaultIfEmpty', '$c.defaultIfEmpty($d)', lambda c, d: ml.m_default_if_empty(c, d))
    two_colls('join', '$c.join($d, {l}, [$1, $2])', lambda c, d, l: ml.m_join(c, d, l, lambda a, b: [a, b]),
              lams=ml.JOIN_PREDICATES)
    two_colls('insertMany-coll', '$c.insertMany(1, $d)', lambda c, d: ml.m_insert_many(c, 1, list(d)))
    two_colls('list2', 'list($c, $d)', lambda c, d: ml.m_list(*[x if hasattr(x, '__next__') else list(x) for x in (c, d)]))
    return S


def _cycle_take(c, n):
    lst = list(c)
    if not lst:
        return []
    out = []
    while len(out) < n:
        out.extend(lst)
    return out[:n]


def _endless():
    raise ml.ModelError('endless')


def _index(lst, n):
    try:
        return lst[n]
    except IndexError:
        raise ml.ModelError('IndexError')


SPECS = None


def specs():
    global SPECS
    if SPECS is None:
        SPECS = _specs()
    return SPECS


# ---- dict / set / constructor cases (explicit, small domains) -------------------------------------------

def _raise_model(why):
    def model():
        raise ml.ModelError(why)
    return model


def dict_cases(rng):
    """yields (name, text, vars(python values), model thunk, unordered)"""
    d = {rng.choice('abcd'): rng.choice([1, 2, [1, 2], {'x': 1}, None, {'x': None, 'z': [1]}, 0, '', False])
         for _ in range(rng.randrange(0, 4))}
    e = {rng.choice('abce'): rng.choice([3, [2, 3], {'x': 2, 'y': 3}, None, {'x': None}, 0, '', [], False])
         for _ in range(rng.randrange(0, 4))}
    k = rng.choice('abcdz')
    v = {'d': d, 'e': e}
    yield 'dict.len', '$d.len()', v, lambda: len(d), False
    yield 'dict.keys', '$d.keys()', v, lambda: set(d.keys()), False
    yield 'dict.values', '$d.values().toList()', v, lambda: list(d.values()), False
    yield 'dict.get', '$d.get(%s)' % k, v, lambda: d.get(k), False
    yield 'dict.get-default', '$d.get(%s, 9)' % k, v, lambda: d.get(k, 9), False
    yield 'dict.indexer', "$d['%s']" % k, v, lambda: _key(d, k), False
    yield 'dict.indexer-default', "$d['%s', 9]" % k, v, lambda: d.get(k, 9), False
    yield 'dict.member', '$d.%s' % k, v, lambda: _key(d, k), False
    yield 'dict.containsKey', '$d.containsKey(%s)' % k, v, lambda: k in d, False
    yield 'dict.containsValue', '$d.containsValue(1)', v, lambda: 1 in d.values(), False
    yield 'dict.set', '$d.set(%s, 5)' % k, v, lambda: dict(d, **{k: 5}), False
    yield 'dict.set-dict', '$d.set($e)', v, lambda: dict(d, **e), False
    yield 'dict.set-rules', '$d.set(%s => 5, q => 6)' % k, v, lambda: dict(d, **{k: 5, 'q': 6}), False
    yield 'dict.plus', '$d + $e', v, lambda: dict(d, **e), False
    yield 'dict.delete', '$d.delete(%s, b)' % k, v, lambda: {a: b for a, b in d.items() if a not in (k, 'b')}, False
    yield 'dict.deleteAll', '$d.deleteAll(%s)' % seq(rng, '[%s, b]' % k), v, lambda: {a: b for a, b in d.items() if a not in (k, 'b')}, False
    yield 'dict.deleteAll-keys', '$d.deleteAll(%s)' % seq(rng, '$e.keys()'), v, lambda: {a: b for a, b in d.items() if a not in e}, False
    yield 'dict.items', '$d.items().select($).toList()', v, lambda: [[a, b] for a, b in d.items()], False
    yield 'dict.isDict', 'isDict($d)', v, lambda: True, False
    # views are sequences of keys / pairs / values: + concatenates them like any other sequences
    yield 'dict.keys-plus-keys', '($d.keys() + $e.keys()).len()', v, lambda: len(d) + len(e), False
    yield 'dict.keys-plus-keys-list', '($d.keys() + $e.keys()).orderBy(str($))', v, lambda: sorted(list(d) + list(e), key=str), False
    yield 'dict.items-plus-items', '($d.items() + $e.items()).len()', v, lambda: len(d) + len(e), False
    yield 'dict.values-plus-list', '($d.values() + [1]).len()', v, lambda: len(d) + 1, False
    yield 'dict.mergeWith', '$d.mergeWith($e)', v, lambda: ml.m_merge_with(d, e), False
    yield 'dict.mergeWith-list', '$d.mergeWith($e, $1 + $2)', v, lambda: ml.m_merge_with(d, e, lambda a, b: a + b), False
    yield 'dict.mergeWith-item', '$d.mergeWith($e, itemMerger => $1)', v, lambda: ml.m_merge_with(d, e, None, lambda a, b: a), False
    kindm = rng.choice(('key', 'index', 'value', 'stop'))

    def merged_or_fail(has_common_lists, has_common_items):
        def model():
            common = [key for key in d if key in e]
            for key in common:
                a, b = d[key], e[key]
                if isinstance(a, dict) and isinstance(b, dict):
                    continue
                if isinstance(a, list) and isinstance(b, list):
                    if has_common_lists:
                        raise ml.ModelError('the list merger failed')
                elif has_common_items:
                    raise ml.ModelError('the item merger failed')
            if has_common_lists and has_common_items:
                return None
            return ml.m_merge_with(d, e) if has_common_lists else ml.m_merge_with(d, e)
        return model
    flat = all(not isinstance(x, dict) for x in list(d.values()) + list(e.values()))
    if flat:
        yield 'dict.mergeWith-failing-list-merger', '$d.mergeWith($e, stopAt(1, 1, %s))' % kindm, v, merged_or_fail(True, False), False
        yield 'dict.mergeWith-failing-item-merger', '$d.mergeWith($e, itemMerger => stopAt(1, 1, %s))' % kindm, v, merged_or_fail(False, True), False
    dd = {'a': [rng.choice([1, 2]) for _ in range(rng.randrange(0, 4))], 'b': 1}
    ee = {'a': [rng.choice([2, 3]) for _ in range(rng.randrange(0, 4))], 'c': 2}
    yield 'dict.mergeWith-duplicates-in-lists', '$dd.mergeWith($ee)', {'dd': dd, 'ee': ee}, lambda: ml.m_merge_with(dd, ee), False
    yield 'dict.list-values', "{a => 'x y'.split(' '), b => $dd.a.toList().insert(0, 9), c => [1, 2].splitAt(1)}.len()", {'dd': dd}, lambda: 3, False
    yield 'dict.list-values-set', "$dd.set(k, 'x y'.split(' ')).k", {'dd': dd}, lambda: ['x', 'y'], False
    yield 'dict.list-values-ctor', "dict(a => 'x y'.split(' ')).a.len() + dict([[k, [1].insert(0, 2)]]).k.len()", {'dd': dd}, lambda: 4, False
    yield 'dict.list-values-plus', "({a => 'x y'.split(' ')} + {b => [1].insert(0, 2)}).keys().len()", {'dd': dd}, lambda: 2, False
    # dicts produced by functions (plain python dicts, list-valued) mixed with literal ones: equality, membership and
    # the precedence of the right operand do not depend on how a dict was produced
    yield 'dict.produced-plus-literal', "[1, 2].toDict($, $) + {1 => 5}", v, lambda: {1: 5, 2: 2}, False
    yield 'dict.produced-set', "[1, 2].toDict($, $).set({2 => 7, 3 => 8})", v, lambda: {1: 1, 2: 7, 3: 8}, False
    yield 'dict.deleted-plus-literal', "$dd.delete(zz) + {b => 9}", {'dd': dd}, lambda: dict(dd, b=9), False
    yield 'dict.literal-plus-produced', "{1 => 5, 3 => 3} + [1, 2].toDict($, $)", v, lambda: {1: 1, 3: 3, 2: 2}, False
    # (a list produced by a function and a list literal are different python types and compare unequal - characterised;
    #  the comparisons below are between values produced the same way)
    yield 'dict.eq-list-valued', "{a => [1].insert(0, 2)} = {a => [1].insert(0, 2)}", v, lambda: True, False
    yield 'dict.neq-list-valued', "{a => 'x y'.split(' ')} != {a => 'x y'.split(' ')}", v, lambda: False, False
    yield 'dict.in-list-valued', "{a => 'x y'.split(' ')} in [1, {a => 'x y'.split(' ')}]", v, lambda: True, False
    yield 'dict.indexOf-list-valued', "[1, {a => [1, 2].splitAt(1)}].indexOf({a => [1, 2].splitAt(1)})", v, lambda: 1, False
    yield 'dict.groupBy-values-eq', "[1, 2, 3].groupBy($ mod 2).toDict($[0], $[1]) = [1, 2, 3].groupBy($ mod 2).toDict($[0], $[1])", v, lambda: True, False
    # keys python cannot order among themselves (numbers, strings, null, booleans, lists), asked for keys they lack
    mk = {1: 'a', 'b': 2, None: 3, 2.5: [1], (1, 2): 'p'}
    mv = {'m': mk, 'd': d, 'e': e}
    for mtext in ('$m', "{1 => a, b => 2, null => 3, 2.5 => [1], [1, 2] => p}"):
        tag = 'host' if mtext == '$m' else 'literal'
        yield 'dict.mixed-keys-containsKey-absent-' + tag, '%s.containsKey(zz)' % mtext, mv, lambda: False, False
        yield 'dict.mixed-keys-containsKey-present-' + tag, '%s.containsKey(null) and %s.containsKey(1)' % (mtext, mtext), mv, lambda: True, False
        yield 'dict.mixed-keys-get-absent-' + tag, '%s.get(zz, 7)' % mtext, mv, lambda: 7, False
        yield 'dict.mixed-keys-get-absent-null-' + tag, '%s.get(77)' % mtext, mv, lambda: None, False
        yield 'dict.mixed-keys-in-keys-' + tag, 'zz in %s.keys()' % mtext, mv, lambda: False, False
        yield 'dict.mixed-keys-mergeWith-' + tag, '{a => 1}.mergeWith(%s).len()' % mtext, mv, lambda: 6, False
        yield 'dict.mixed-keys-mergeWith-left-' + tag, '%s.mergeWith({zz => 1, b => 5}).b' % mtext, mv, lambda: 5, False
        yield 'dict.mixed-keys-plus-' + tag, '(%s + {zz => 1}).len()' % mtext, mv, lambda: 6, False
        yield 'dict.mixed-keys-delete-absent-' + tag, '%s.delete(zz, 99).len()' % mtext, mv, lambda: 5, False
        yield 'dict.mixed-keys-set-' + tag, '%s.set(zz, 1).len()' % mtext, mv, lambda: 6, False
        yield 'dict.mixed-keys-index-absent-' + tag, '%s[zz]' % mtext, mv, _raise_model('absent key'), False
        yield 'dict.mixed-keys-index-default-' + tag, '%s[zz, 4]' % mtext, mv, lambda: 4, False
    yield 'dict.mergeWith-levels', '$d.mergeWith($e, maxLevels => 1)', v, lambda: ml.m_merge_with(d, e, max_levels=1), False
    yield 'dict.ctor', 'dict(%s => 1, b => $d)' % k, v, lambda: {k: 1, 'b': d} if k != 'b' else {'b': d}, False
    yield 'dict.ctor-items', 'dict(%s)' % seq(rng, '$d.items()'), v, lambda: dict(d), False
    yield 'dict.ctor-pairs', 'dict(%s)' % seq(rng, '[[%s, 1], [b, 2]]' % k), v, lambda: {k: 1, 'b': 2} if k != 'b' else {'b': 2}, False
    yield 'dict.literal', '{%s => 1, b => 2}' % k, v, lambda: {k: 1, 'b': 2} if k != 'b' else {'b': 2}, False
    yield 'dict.toDict-values', '$d.keys().toDict($, $d.get($))', v, lambda: dict(d), False
    a = [rng.choice([0, 1, 2, 3, 'x']) for _ in range(rng.randrange(0, 4))]
    b = [rng.choice([1, 2, 4, 'x']) for _ in range(rng.randrange(0, 4))]
    sa, sb = set(a), set(b)
    # python sets collapse 1/True; the corpus avoids such pairs
    v2 = {'a': frozenset(a), 'b': frozenset(b)}
    for name, text, f in (
            ('set.union', '$a.union($b)', lambda: sa | sb), ('set.intersect', '$a.intersect($b)', lambda: sa & sb),
            ('set.difference', '$a.difference($b)', lambda: sa - sb), ('set.minus', '$a - $b', lambda: sa - sb),
            ('set.symmetricDifference', '$a.symmetricDifference($b)', lambda: sa ^ sb),
            ('set.plus', '$a + $b', lambda: sa | sb),
            ('set.add', '$a.add(7, 1)', lambda: sa | {7, 1}), ('set.remove', '$a.remove(1, 9)', lambda: sa - {1, 9}),
            ('set.len', '$a.len()', lambda: len(sa)), ('set.lt', '$a < $b', lambda: sa < sb), ('set.le', '$a <= $b', lambda: sa <= sb),
            ('set.gt', '$a > $b', lambda: sa > sb), ('set.ge', '$a >= $b', lambda: sa >= sb),
            ('set.isSet', 'isSet($a)', lambda: True), ('set.ctor', 'set(1, 2, 1, x)', lambda: {1, 2, 'x'}),
            ('set.toSet', '$a.toList().toSet()', lambda: sa), ('set.contains', '$a.contains(1)', lambda: 1 in sa),
            ('set.eq', '$a = $b', lambda: sa == sb)):
        yield name, text, v2, f, False


def _key(d, k):
    if k not in d:
        raise ml.ModelError('KeyError')
    return d[k]


def misc_cases(rng):
    n = rng.randrange(0, 5)
    lst = [rng.choice(ELEMS_INT) for _ in range(n)]
    v = {'c': tuple(lst)}
    # an element function that fails with StopIteration fails the evaluation; it does not end the collection early
    k = rng.choice(ELEMS_INT)

    def stopper(f):
        def model():
            out = []
            for x in lst:
                if x == k:
                    raise ml.ModelError('StopIteration inside the element function')
                out.append(x)
            return f(out)
        return model
    kind = rng.choice(('key', 'index', 'value', 'type', 'attr'))
    yield 'fail-in-select', "$c.select(stopAt($, %d, %s)).toList()" % (k, kind), v, stopper(lambda o: o), False
    yield 'fail-in-where', "$c.where(stopAt($, %d, %s) > -100).len()" % (k, kind), v, stopper(lambda o: len(o)), False
    yield 'fail-in-groupBy-key', "$c.groupBy(stopAt($, %d, %s)).len()" % (k, kind), v, stopper(lambda o: len(set(o))), False
    yield 'fail-in-groupBy-aggregator', "$c.groupBy($ mod 2, $, stopAt($.len(), %d, %s)).toList().len()" % (99, kind), v, (
        lambda: len({x % 2 for x in lst})), False
    yield 'fail-in-accumulate', "$c.accumulate(stopAt($2, %d, %s), 0).toList()" % (k, kind), v, stopper(lambda o: [0] + o), False
    yield 'fail-in-selectMany', "$c.selectMany([stopAt($, %d, %s)]).toList()" % (k, kind), v, stopper(lambda o: o), False
    yield 'fail-in-distinct', "$c.distinct(stopAt($, %d, %s)).len()" % (k, kind), v, stopper(lambda o: len(set(o))), False
    yield 'fail-in-indexWhere', "$c.indexWhere(stopAt($, %d, %s) > 100)" % (k, kind), v, stopper(lambda o: -1), False
    yield 'fail-in-all', "$c.all(stopAt($, %d, %s) > -100)" % (k, kind), v, stopper(lambda o: True), False
    yield 'stop-in-select', '$c.select(stopAt($, %d)).toList()' % k, v, stopper(lambda o: o), False
    yield 'stop-in-where', '$c.where(stopAt($, %d) > -100).toList()' % k, v, stopper(lambda o: o), False
    yield 'stop-in-takeWhile', '$c.takeWhile(stopAt($, %d) > -100).toList()' % k, v, stopper(lambda o: o), False
    if len(lst) >= 2:     # (a single element is never compared, so its key is never computed)
        yield 'stop-in-orderBy', '$c.orderBy(stopAt($, %d)).toList()' % k, v, stopper(lambda o: sorted(o)), False
    yield 'stop-in-any', '$c.any(stopAt($, %d) > 100)' % k, v, stopper(lambda o: False), False
    yield 'stop-in-toDict', '$c.toDict(stopAt($, %d)).len()' % k, v, stopper(lambda o: len(set(o))), False
    yield 'stop-in-sum', '$c.select(stopAt($, %d)).sum(0)' % k, v, stopper(lambda o: sum(o)), False
    # an ordering bound to a variable is the same sequence however often it is read, also over a one-shot source
    yield 'orderBy-read-twice', 'let(o => $c.select($).orderBy($)) -> [$o.toList(), $o.len(), $o.toList(), $o.first(77)]', v, (
        lambda: [sorted(lst), len(lst), sorted(lst), (sorted(lst)[0] if lst else 77)]), False
    yield 'orderBy-thenBy-read-twice', 'let(o => $c.where(true).orderBy($ mod 2).thenByDescending($)) -> [$o.len(), $o.toList(), $o.toList()]', v, (
        lambda: [len(lst), sorted(lst, key=lambda x: (x % 2, -x)), sorted(lst, key=lambda x: (x % 2, -x))]), False
    # a memorized sequence read by two passes at once: each pass sees the whole sequence
    m = rng.randrange(0, 6)
    yield 'memorize-nested-passes', 'let(m => range(%d).memorize()) -> $m.select([$, $m.len()])' % m, v, (
        lambda: [[i, m] for i in range(m)]), False
    yield 'memorize-zip-skip', 'let(m => range(%d).select($ * 2).memorize()) -> $m.zip($m.skip(1))' % m, v, (
        lambda: [[2 * i, 2 * i + 2] for i in range(max(m - 1, 0))]), False
    yield 'memorize-self-join', 'let(m => range(%d).memorize()) -> $m.join($m, true, [$1, $2]).len()' % m, v, (lambda: m * m), False
    yield 'memorize-twice', 'let(m => $c.select($).memorize()) -> [$m.toList(), $m.reverse(), $m.len()]', v, (
        lambda: [list(lst), list(reversed(lst)), len(lst)]), False
    # list() / set() splice lazily produced arguments, at every depth of laziness; real lists stay elements
    nn = [[rng.choice(ELEMS_INT) for _ in range(rng.randrange(0, 3))] for _ in range(rng.randrange(0, 4))]
    vn = {'nn': tuple(tuple(x) for x in nn)}
    flat = [y + 1 for x in nn for y in x]
    yield 'list-nested-lazy', 'list($nn.select($.select($ + 1)))', vn, lambda: list(flat), False
    yield 'list-nested-lazy-mixed', 'list(0, $nn.select($.select($ + 1)), [7])', vn, lambda: [0] + flat + [[7]], False
    yield 'list-lazy-of-lists', 'list($nn.select($))', vn, lambda: [list(x) for x in nn], False
    yield 'set-nested-lazy', 'set($nn.select($.select($ + 1)))', vn, lambda: set(flat), False
    yield 'list-three-levels', 'list([$nn].select($.select($.select($ * 2))))', vn, lambda: [y * 2 for x in nn for y in x], False
    yield 'unpack', '$c.unpack(a, b) -> [$b, $a]', v, (lambda: [lst[1], lst[0]] if len(lst) == 2 else _err()), False
    yield 'unpack-nonames', '$c.unpack() -> [$1, $2]', v, (lambda: [lst[0] if n > 0 else None, lst[1] if n > 1 else None]), False
    yield 'unpack-iter', '$c.select($).unpack() -> [$1, $2]', v, (lambda: [lst[0] if n > 0 else None, lst[1] if n > 1 else None]), False
    yield 'unpack-iter-names', '$c.select($).unpack(a, b) -> [$a, $b]', v, (lambda: [lst[0], lst[1]] if len(lst) == 2 else _err()), False
    yield 'with', 'with($c, 2) -> [$1, $2]', v, lambda: [lst, 2], False
    yield 'let', 'let($c, x => 2) -> [$1, $x]', v, lambda: [lst, 2], False
    yield 'list-literal', '[$c, 1, [2]]', v, lambda: [lst, 1, [2]], False
    yield 'generate', 'generate(0, $ < %d, $ + 2)' % n, v, lambda: list(range(0, n, 2)), False
    yield 'generate-sel', 'generate(1, $ < %d, $ + 1, $ * 10)' % (n + 2), v, lambda: [i * 10 for i in range(1, n + 2)], False
    yield 'generate-decycle', 'generate(0, true, ($ + 1) mod %d, $, true)' % (n + 1), v, lambda: list(range(n + 1)), False
    yield 'generateMany', 'generateMany(1, switch($ < %d => [$ * 2, $ * 2 + 1], true => []))' % (n + 1), v, (
        lambda: list(ml.m_generate_many(1, lambda x: [x * 2, x * 2 + 1] if x < n + 1 else []))), False
    yield 'generateMany-depth', 'generateMany(1, switch($ < %d => [$ * 2, $ * 2 + 1], true => []), depthFirst => true)' % (n + 1), v, (
        lambda: list(ml.m_generate_many(1, lambda x: [x * 2, x * 2 + 1] if x < n + 1 else [], depth_first=True))), False
    yield 'sequence-take', 'sequence(%d, 3).take(4)' % n, v, lambda: [n + 3 * i for i in range(4)], False
    yield 'range1', 'range(%d)' % n, v, lambda: list(range(n)), False
    yield 'thenBy', '$c.select([$ mod 2, $]).orderBy($[0]).thenByDescending($[1])', v, (
        lambda: sorted(([x % 2, x] for x in lst), key=lambda p: (p[0], -p[1]))), False
    yield 'thenBy-asc', '$c.select([$ mod 2, $]).orderByDescending($[0]).thenBy($[1])', v, (
        lambda: sorted(([x % 2, x] for x in lst), key=lambda p: (-p[0], p[1]))), False
    yield 'groupBy-value', '$c.groupBy($ mod 2, $ * 10)', v, lambda: ml.m_group_by(lst, lambda x: x % 2, lambda x: x * 10), False
    yield 'groupBy-agg', '$c.groupBy($ mod 2, $, $.len())', v, lambda: ml.m_group_by(lst, lambda x: x % 2, None, len), False
    yield 'groupBy-agg-sum', '$c.groupBy($ mod 3, $ + 1, $.sum())', v, lambda: ml.m_group_by(lst, lambda x: x % 3, lambda x: x + 1, sum), False
    yield 'toDict-value', '$c.toDict($ mod 3, $ * 2)', v, lambda: {x % 3: x * 2 for x in lst}, False
    yield 'member-projection', '$c.select({a => $, b => [{a => $ + 1}]}).a', v, lambda: list(lst), False
    yield 'member-projection-nested', '$c.select({b => [{a => $ + 1}, {a => 0}]}).b.a', v, lambda: [[x + 1, 0] for x in lst], False
    # booleans are not numbers: a collection of booleans has no maximum or minimum, just as true > false has no meaning
    for btext in ('[true, false].max()', '[true, false].min()', '[false, true, false].max(false)', '[true].min(true)',
                  '[true, true].max()', 'max(true, false)', 'min(false, true)', '[1, true].max()', '[false, 0].min()'):
        yield 'bool-extremum', btext, v, _raise_model('booleans are not ordered'), False
    # host-owned python sets in context variables (never converted): toSet() makes yaql sets of them
    sv = {'s': {1, k + 20}, 't': {k + 20, 3}, 'c': tuple(lst)}
    yield 'raw-set-toSet-union', '$s.toSet() + $t.toSet()', sv, lambda: {1, k + 20, 3}, True
    yield 'raw-set-toSet-union-len', '($s.toSet() + [%d, 7].toSet()).len()' % (k + 20), sv, lambda: 3, False
    yield 'raw-set-toSet-set-of-sets', '[$s.toSet(), $t.toSet(), $s.toSet()].toSet().len()', sv, lambda: 2, False
    yield 'raw-set-toSet-groupBy-key', '[$s, $t, $s].groupBy($.toSet()).len()', sv, lambda: 2, False
    yield 'raw-set-toSet-dict-key', 'dict($s.toSet() => x).len()', sv, lambda: 1, False
    yield 'raw-set-toSet-distinct', '[$s, $t, $s].select($.toSet()).distinct().len()', sv, lambda: 2, False
    # ordering keys that are equal for yaql without being equal (or hashing equal) for python: the same instant as a
    # naive (UTC) host datetime and as a zone-aware one; 1 / 1.0 / true-free numeric ties
    import datetime as _dt
    t0 = _dt.datetime(2021, 3, 4, 5, 6, 7) + _dt.timedelta(days=k)
    aw = lambda t, h: (t + _dt.timedelta(hours=h)).replace(tzinfo=_dt.timezone(_dt.timedelta(hours=h)))
    rows = [{'at': t0, 'n': 3}, {'at': aw(t0, 2), 'n': 1}, {'at': aw(t0 + _dt.timedelta(hours=1), -3), 'n': 0}, {'at': t0, 'n': 2},
            {'at': aw(t0, -5), 'n': 4}]
    rv = {'rows': rows, 'c': tuple(lst)}
    yield 'orderBy-thenBy-same-instant-keys', '$rows.orderBy($.at).thenBy($.n).select($.n)', rv, lambda: [1, 2, 3, 4, 0], False
    yield 'orderBy-stable-same-instant-keys', '$rows.orderBy($.at).select($.n)', rv, lambda: [3, 1, 2, 4, 0], False
    yield 'orderByDescending-thenBy-same-instant-keys', '$rows.orderByDescending($.at).thenBy($.n).select($.n)', rv, lambda: [0, 1, 2, 3, 4], False
    yield 'orderByDescending-thenByDescending-same-instant-keys', '$rows.orderByDescending($.at).thenByDescending($.n).select($.n)', rv, (
        lambda: [0, 4, 3, 2, 1]), False
    nrows = [{'at': 1, 'n': 3}, {'at': 1.0, 'n': 1}, {'at': 2, 'n': 0}, {'at': 1, 'n': 2}]
    yield 'orderBy-thenBy-int-float-ties', '$rows.orderBy($.at).thenBy($.n).select($.n)', {'rows': nrows, 'c': tuple(lst)}, lambda: [1, 2, 3, 0], False
    # flatten: the same sub-collection (one object, or equal ones) may occur several times and at several depths
    shared = [k, k + 1]
    hv = {'h': [shared, [shared, 3], shared, [], [[]], ()], 'c': tuple(lst)}
    yield 'flatten-shared-host-sublist', '$h.flatten()', hv, lambda: shared + shared + [3] + shared, False
    yield 'flatten-empty-twice', '[[], %d, [], [[]]].flatten()' % k, v, lambda: [k], False
    yield 'flatten-equal-literals', '[[%d], [%d], [[%d]]].flatten()' % (k, k, k), v, lambda: [k, k, k], False
    yield 'flatten-variable-twice', 'let(x => [1, %d]) -> [$x, [$x, 3], $x].flatten()' % k, v, lambda: [1, k, 1, k, 3, 1, k], False
    yield 'flatten-elements-twice', '[$c, [$c], $c].flatten()', v, lambda: lst * 3, False
    yield 'flatten-deep', '[[[[%d]]], [[2]], 3].flatten()' % k, v, lambda: [k, 2, 3], False


def _err():
    raise ml.ModelError('expected error')


# ---- comparison ---------------------------------------------------------------------------------------

def deep_same(x, y, unordered=False):
    if unordered and isinstance(x, list) and isinstance(y, list):
        if len(x) != len(y):
            return False
        rest = list(y)
        for a in x:
            for i, b in enumerate(rest):
                if deep_same(a, b):
                    del rest[i]
                    break
            else:
                return False
        return True
    if type(x) is not type(y):
        return False
    if isinstance(x, dict):
        if len(x) != len(y):
            return False
        for k, v in x.items():
            m = [k2 for k2 in y if type(k2) is type(k) and k2 == k]
            if not m or not deep_same(v, y[m[0]]):
                return False
        return True
    if isinstance(x, list):
        return len(x) == len(y) and all(deep_same(a, b) for a, b in zip(x, y))
    if isinstance(x, set):
        return deep_same(sorted(x, key=repr), sorted(y, key=repr))
    if isinstance(x, float):
        return repr(x) == repr(y)
    return x == y


class Mon:
    def __init__(self, rec):
        self.rec = rec
        self.limited = {}
        self.eng = yq.engine({'yaql.limitIterators': 10000, 'yaql.memoryQuota': 50000000})
        self.ctx = yaql.create_context()
        # a host function whose failure is a StopIteration (a bare next() on an exhausted iterator): a failure of the
        # element function, never the end of the collection
        def stop_at(x, k, kind='stop'):
            if x == k:
                raise {'stop': StopIteration, 'key': KeyError, 'index': IndexError, 'value': ValueError, 'type': TypeError,
                       'attr': AttributeError}[kind]('element function failed')
            return x
        self.ctx = self.ctx.create_child_context()
        self.ctx.register_function(stop_at, name='stopAt')
        # other worlds in which a case must come out the same: a context without the queries module (for cases that
        # never entered a function of that module), a context with the delegate functions, a context with another
        # naming convention (for texts without keyword arguments)
        from yaql.language import conventions as yconv
        self.worlds = {}
        for wname, kw in (('no-queries-module', {'queries': False}), ('delegates', {'delegates': True}),
                          ('python-convention', {'convention': yconv.PythonConvention()})):
            w = yaql.create_context(**kw).create_child_context()
            w.register_function(stop_at, name='stopAt' if wname != 'python-convention' else 'stopAt')
            self.worlds[wname] = w
        full = yaql.create_context()
        noq = yaql.create_context(queries=False)

        def names(c):
            out = {}
            while c is not None:
                for nm, fds in getattr(c, '_functions', {}).items():
                    out.setdefault(nm, set()).update(getattr(fd.payload, '__qualname__', repr(fd.payload)) + '@' + getattr(
                        fd.payload, '__module__', '') for fd in fds)
                c = c.parent
            return out
        nf, nq = names(full), names(noq)
        # names to which the queries module contributes at least one overload
        self.queries_only_names = {nm for nm in nf if nf[nm] != nq.get(nm)}
        self.reach = hooks.Reach()
        for o in cat.build(yaql.create_context()):
            mod = o.code_owner.__module__.split('.')[-1]
            if mod in ('queries', 'collections', 'system'):
                self.reach.watch(o.code_owner, 'payload.%s.%s' % (mod, o.code_owner.__name__))
        self.reach.start()

    def close(self):
        for k in list(self.reach.counts):
            if self.reach.counts[k]:
                self.rec.count('pr.' + k[len('payload.'):], self.reach.counts[k])
            del self.reach.counts[k]
        self.reach.stop()

    def queries_calls(self):
        return sum(v for k, v in self.reach.counts.items() if k.startswith('payload.queries.'))

    def run(self, text, vars_, data=None, world=None):
        ctx = (self.worlds[world] if world else self.ctx).create_child_context()
        for k, v in vars_.items():
            ctx[k] = v
        try:
            if data is not None:
                return ('value', self.eng(text).evaluate(data=data, context=ctx))
            return ('value', self.eng(text).evaluate(context=ctx))
        except Exception as e:
            return ('error', type(e).__name__)

    def compare(self, name, text, real_vars, thunk, unordered, desc, stop_iteration=False, replay=None, data=None):
        rec = self.rec
        q0 = self.queries_calls()
        colls = real_vars

        def fresh():
            return {k: (v.real() if isinstance(v, Coll) else v) for k, v in colls.items()}
        real_vars = fresh()
        reusable = not any(hasattr(v, '__next__') and not isinstance(colls[k], Coll) for k, v in real_vars.items()) and data is None
        got = self.run(text, real_vars, data)
        try:
            used_queries = bool(yq.function_names(self.eng(text).expression) & self.queries_only_names)
        except Exception:
            used_queries = True
        if reusable:
            for wname in self.worlds:
                if wname == 'no-queries-module' and used_queries:
                    continue
                if wname == 'python-convention' and ('=>' in text or re.search(r'[a-z][A-Z]', text)):
                    continue        # keyword names and camelCase function names are spelled differently there
                other = self.run(text, fresh(), None, world=wname)
                rec.count('world.' + wname)
                same_out = other[0] == got[0] and (other[1] == got[1] if got[0] == 'error' else deep_same(other[1], got[1], unordered))
                if not same_out:
                    rec.violation('result-depends-on-context-flavour:%s' % wname,
                                  '%s with %s gives %r in the default context and %r in the %s context' % (text, desc, got, other, wname),
                                  replay or {'kind': 'none'})
        try:
            want = ('value', ml.finalize(thunk()))
        except RecursionError:
            want = ('error', 'RecursionError')
        except Exception as e:
            want = ('error', type(e).__name__ + ':' + str(e)[:40])
        rec.count('cases')
        rec.count('fn.' + name)
        ok = got[0] == want[0]
        if ok and got[0] == 'value':
            ok = deep_same(got[1], want[1], unordered)
        if ok and got[0] == 'error' and stop_iteration and 'StopIteration' in want[1]:
            ok = got[1] == 'StopIteration'
        rec.count('agree.' + got[0] if ok else 'disagree')
        if not ok:
            rec.violation('library-result-differs-from-model:%s' % name,
                          '%s with %s gives %r, the documented meaning gives %r' % (text, desc, got, want),
                          replay or {'kind': 'none'})
        return ok, got, want


def plan(tier, seed):
    thorough = tier == 'thorough'
    shards = []
    for p in range(16 if thorough else 8):
        shards.append({'name': 'fn-%d' % p, 'kind': 'functions', 'per_fn': 160 if thorough else 12, 'timeout': 3000})
    for p in range(8 if thorough else 2):
        shards.append({'name': 'dict-%d' % p, 'kind': 'dicts', 'count': 2500 if thorough else 150, 'timeout': 3000})
    for p in range(8 if thorough else 2):
        shards.append({'name': 'laws-%d' % p, 'kind': 'laws', 'count': 3000 if thorough else 200, 'timeout': 3000})
    for p in range(16 if thorough else 4):
        shards.append({'name': 'pipe-%d' % p, 'kind': 'pipelines', 'count': 10000 if thorough else 500, 'timeout': 3000})
    return shards


def run_shard(spec, rec):
    mon = Mon(rec)
    try:
        rng = rng_for(spec['seed'], 'c13', spec['name'])
        globals()['_' + spec['kind']](spec, mon, rec, rng)
    finally:
        mon.close()


def _functions(spec, mon, rec, rng):
    for s in specs():
        for i in range(spec['per_fn']):
            kinds = ('tuple', 'tuple', 'iter', 'iter', 'set') if s.sets_ok else ('tuple', 'iter')
            flavor = None
            if s.name.startswith(('orderBy', 'max', 'min', 'sum', 'toSet', 'toDict', 'groupBy', 'distinct')):
                flavor = rng.choice(['int', 'int', 'null', 'str'])
                if s.name.startswith(('groupBy', 'distinct')) and rng.random() < 0.4:
                    flavor = rng.choice(('dicts', 'dicts', 'sets'))   # hashing operators on equal dicts / sets written in either order
            c = gen_coll(rng, flavor, kinds)
            if c.kind == 'set' and not all(isinstance(e, int) and not isinstance(e, bool) for e in c.elems):
                # short-circuiting and erroring lambdas make results depend on set iteration order
                c = gen_coll(rng, 'int', ('set',))
            text, extra, thunk = s.build(rng, c)
            real = {'c': c}
            desc = 'c=' + c.desc()
            for k, d in extra.items():
                real[k] = d
                desc += ' %s=%s' % (k, d.desc())
            rec.count('kind.' + c.kind)
            rec.case((text, desc), nontrivial=bool(c.elems) or s.name.startswith(('range', 'repeat')))
            ok, got, want = mon.compare(s.name, text, real, lambda: thunk(c.model()), c.unordered, desc,
                                        s.stop_iteration,
                                        {'kind': 'fn', 'name': s.name, 'shard': spec['name'], 'index': i,
                                         'per_fn': spec['per_fn']})
            # the same collection handed over as raw host data (a python tuple / list whose elements are still
            # python lists and dicts): evaluate() converts it itself
            if i % 3 == 0 and c.kind == 'tuple' and not extra and not any(isinstance(e, frozenset) for e in c.elems):
                import copy
                shape = rng.choice((tuple, list))
                host = {'c': shape(copy.deepcopy(c.elems))}
                text2 = re.sub(r'\$c\b', '$.c', text)
                rec.count('kind.host-data')
                mon.compare(s.name, text2, {}, lambda: thunk(c.model()), c.unordered, 'data.c=%s%r' % (shape.__name__, c.elems),
                            s.stop_iteration, {'kind': 'fn', 'name': s.name, 'shard': spec['name'], 'index': i,
                                               'per_fn': spec['per_fn']}, data=host)
        if len(rec.samples) < 4 and s.name in ('replace-count', 'groupBy', 'join', 'orderBy'):
            rec.sample({'function': s.name, 'text': text, 'input': desc, 'yaql': got, 'model': want})


def _dicts(spec, mon, rec, rng):
    for i in range(spec['count']):
        for gen in (dict_cases, misc_cases):
            for name, text, vars_, thunk, unordered in gen(rng):
                # (context variables are the host's own objects: cases named raw-* hand them over as they are)
                real = {k: yutils.convert_input_data(v) if not (isinstance(v, frozenset) or name.startswith('raw-')) else v
                        for k, v in vars_.items()}
                desc = repr(vars_)
                rec.case((text, desc), nontrivial=True)
                ok, got, want = mon.compare(name, text, real, thunk, unordered, desc,
                                            replay={'kind': 'dict', 'name': name, 'shard': spec['name'], 'index': i})
                if name in TIGHT_LIMIT_NAMES and got[0] == 'value':
                    # the iterator limit bounds collections, it does not refuse results and operands that fit: the same
                    # evaluation under a limit equal to the largest collection involved gives the same result
                    n_ = max([_max_len(x) for x in vars_.values()] + [_max_len(got[1]), 1, text.count(',') + 1])     # (literals in the text too)
                    eng = mon.limited.get(n_)
                    if eng is None:
                        eng = mon.limited[n_] = yq.engine({'yaql.limitIterators': n_})
                    ctx = mon.ctx.create_child_context()
                    for k_, v_ in real.items():
                        ctx[k_] = v_
                    try:
                        lim = ('value', eng(text).evaluate(context=ctx))
                    except Exception as e:
                        lim = ('error', type(e).__name__)
                    rec.count('cases')
                    rec.count('fn.' + name + '@tight-limit')
                    rec.count('world.tight-limit')
                    if not (lim[0] == 'value' and deep_same(lim[1], got[1], unordered)):
                        rec.violation('result-depends-on-context-flavour:tight-iterator-limit:%s' % name,
                                      '%s with %s gives %r, but %r on an engine with limitIterators=%d (the largest collection involved '
                                      'has %d elements)' % (text, desc, got, lim, n_, n_), {'kind': 'none'})
    legacy_projection(mon, rec, rng, spec['count'] * 4)
    rec.sample({'function': name, 'text': text, 'vars': desc})


TIGHT_LIMIT_NAMES = {'dict.plus', 'dict.set', 'dict.set-dict', 'dict.set-rules', 'dict.delete', 'dict.deleteAll', 'dict.mergeWith',
                     'dict.ctor', 'dict.produced-plus-literal', 'dict.produced-set', 'dict.literal-plus-produced', 'dict.items',
                     'dict.keys-plus-keys-list', 'dict.mergeWith-duplicates-in-lists', 'dict.deleted-plus-literal'}


def _max_len(x, depth=0):
    if depth > 8 or isinstance(x, (str, bytes)):
        return 0
    if isinstance(x, dict) or hasattr(x, 'items') and hasattr(x, 'keys'):
        return max([len(x)] + [_max_len(k, depth + 1) for k in x.keys()] + [_max_len(v, depth + 1) for v in x.values()])
    if isinstance(x, (list, tuple, set, frozenset)):
        return max([len(x)] + [_max_len(y, depth + 1) for y in x])
    return 0


def legacy_projection(mon, rec, rng, count):
    """member projection over a collection (`$.name`) maps the `.` operator of the evaluating context over the
    elements: it agrees with `$.select($.name)` in every flavour, and in the legacy flavour, whose `.` on a dictionary
    gives null for an absent key, with [d.get(name) for d in data]"""
    from yaql import legacy as ylegacy
    flavours = getattr(mon, '_legacy_flavours', None)
    if flavours is None:
        flavours = mon._legacy_flavours = [
            ('legacy-engine+legacy-context', ylegacy.YaqlFactory().create(), ylegacy.create_context(), True),
            ('default-engine+legacy-context', mon.eng, ylegacy.create_context(), True),
            ('default', mon.eng, mon.ctx, False)]
    keys = ['a', 'b', 'c']
    for _ in range(count):
        doc = [{k_: rng.randrange(10) for k_ in keys if rng.random() < 0.6} for _ in range(rng.randrange(0, 5))]
        key = rng.choice(keys)
        for fname, eng, ctx, lenient in flavours:
            outs = []
            for text in ('$.%s' % key, '$.select($.%s)' % key, '$.where(true).%s' % key, '$.select($).%s.select($)' % key):
                try:
                    r = eng(text).evaluate(data=doc, context=ctx.create_child_context())
                    outs.append(('value', [x for x in r]))
                except Exception as e:
                    outs.append(('error', type(e).__name__))
            rec.count('cases')
            rec.count('fn.member-projection-flavours')
            rec.count('world.' + fname)
            rec.case(('legacy-projection', fname, repr(doc), key), nontrivial=bool(doc))
            complete = all(key in d for d in doc)
            if lenient or complete:
                want = ('value', [d.get(key) for d in doc])
                bad = [o for o in outs if o != want]
            else:
                want = 'an error (absent key)'
                bad = [o for o in outs if o[0] != 'error']
            if bad:
                rec.violation('library-result-differs-from-model:member-projection:%s' % fname,
                              'member %s projected out of %r in the %s flavour gives %r for $.%s / $.select($.%s) / ..., expected %r' % (
                                  key, doc, fname, outs, key, key, want), {'kind': 'none'})
            else:
                rec.count('agree.value')


def _laws(spec, mon, rec, rng):
    def val(text, **vars_):
        return mon.run(text, {k: (v.real() if isinstance(v, Coll) else v) for k, v in vars_.items()})

    def bad(law, detail, c):
        rec.violation('law-broken:%s' % law, '%s on %s' % (detail, c.desc()), {'kind': 'law', 'law': law})
    for i in range(spec['count']):
        c = gen_coll(rng, rng.choice(['int', 'int', 'null', 'pair']), kinds=('tuple', 'iter'))
        rec.count('laws.checked')
        rec.case(('laws', c.desc()), nontrivial=bool(c.elems))
        n = rint(rng, c)
        base = val('$c.toList()', c=c)
        # stable sorted permutation (elements tagged with their position)
        if all(isinstance(e, (int, type(None))) and not isinstance(e, bool) for e in c.elems):
            r = val('$c.enumerate().orderBy($[1])', c=c)
            if r[0] == 'value':
                out = r[1]
                if sorted(map(repr, out)) != sorted(repr([i_, e]) for i_, e in enumerate(c.elems)):
                    bad('orderBy-permutation', 'orderBy output %r is not a permutation of the input' % (out,), c)
                for a, b in zip(out, out[1:]):
                    ka, kb = a[1], b[1]
                    lt = ms.binary('<', kb, ka)
                    if lt == ('value', True):
                        bad('orderBy-sorted', 'keys out of order: %r before %r' % (a, b), c)
                    elif ka == kb and a[0] > b[0]:
                        bad('orderBy-stable', 'equal keys reordered: %r before %r' % (a, b), c)
            r2 = val('$c.enumerate().orderByDescending($[1]).thenBy($[0])', c=c)
            if r2[0] == 'value' and r[0] == 'value':
                for a, b in zip(r2[1], r2[1][1:]):
                    if ms.binary('>', b[1], a[1]) == ('value', True) or (a[1] == b[1] and a[0] > b[0]):
                        bad('orderByDescending-thenBy', '%r before %r' % (a, b), c)
        # groupBy: order-preserving partition
        if all(isinstance(e, int) for e in c.elems):
            r = val('$c.enumerate().groupBy($[1] mod 3)', c=c)
            if r[0] == 'value':
                keys = [g[0] for g in r[1]]
                firsts = []
                for e in c.elems:
                    if e % 3 not in firsts:
                        firsts.append(e % 3)
                if keys != firsts:
                    bad('groupBy-key-encounter-order', 'group keys %r, encounter order %r' % (keys, firsts), c)
                members = sorted((m for g in r[1] for m in g[1]), key=lambda p: p[0])
                if members != [[i_, e] for i_, e in enumerate(c.elems)]:
                    bad('groupBy-partition', 'groups %r do not partition the input' % (r[1],), c)
                for g in r[1]:
                    if any(m[1] % 3 != g[0] for m in g[1]) or [m[0] for m in g[1]] != sorted(m[0] for m in g[1]):
                        bad('groupBy-group-order', 'group %r is misplaced or reordered' % (g,), c)
        if base[0] != 'value':
            continue
        if n >= 0:
            r = val('$c.take(%d) + $c.skip(%d)' % (n, n), c=Coll(c.elems, 'tuple'))
            if r != base:
                bad('take+skip-recomposition', 'take(%d) + skip(%d) = %r, collection %r' % (n, n, r, base), c)
            r = val('$c.splitAt(%d)' % n, c=c)
            if r[0] == 'value' and (len(r[1]) != 2 or r[1][0] + r[1][1] != base[1]):
                bad('splitAt-recomposition', 'splitAt(%d) = %r' % (n, r), c)
            if n > 0:
                r = val('$c.slice(%d).selectMany($)' % n, c=c)
                if r != base:
                    bad('slice-recomposition', 'slice(%d) chunks do not concatenate to the input: %r' % (n, r), c)
        r = val('$c.reverse().reverse()', c=c)
        if r != base:
            bad('reverse-involution', 'reverse().reverse() = %r' % (r,), c)
        p = pick(rng, ml.PREDICATES[:2] + ml.PREDICATES[3:8])
        r1 = val('not $c.any(%s)' % p.text, c=Coll(c.elems, 'tuple'))
        r2 = val('$c.all(not (%s))' % p.text, c=Coll(c.elems, 'tuple'))
        if r1 != r2 and r1[0] == 'value' and r2[0] == 'value':
            bad('de-morgan-any-all', 'not any(%s) = %r but all(not %s) = %r' % (p.text, r1, p.text, r2), c)
        if all(isinstance(e, (int, str, type(None))) and not isinstance(e, bool) for e in c.elems):
            r1 = val('$c.toSet().toSet() = $c.toSet()', c=Coll(c.elems, 'tuple'))
            if r1 != ('value', True):
                bad('toSet-idempotent', 'toSet().toSet() != toSet(): %r' % (r1,), c)
            r1 = val('$c.distinct().distinct()', c=Coll(c.elems, 'tuple'))
            r2 = val('$c.distinct()', c=Coll(c.elems, 'tuple'))
            if r1 != r2:
                bad('distinct-idempotent', '%r vs %r' % (r1, r2), c)
        r = val('$c.zip($c.toList()).select($[0])', c=Coll(c.elems, 'tuple'))
        if r != base:
            bad('zip-projection', 'zip(c, c).select($[0]) = %r' % (r,), c)
        r = val('$c.where(true).len() = $c.len() and $c.where(false).len() = 0', c=Coll(c.elems, 'tuple'))
        if r != ('value', True):
            bad('where-constant', '%r' % (r,), c)
        # sum is the fold of `+` over the elements, whatever the receiver kind (floats: exactly that fold)
        fl = [rng.choice([0.1, 0.2, 0.3, 1e100, -1e100, 1.0, 3, 2.5, 1e-9, 7, 0.7]) for _ in range(rng.randrange(0, 7))]
        r1 = val('$c.sum()', c=Coll(fl, 'tuple'))
        r2 = val('$c.aggregate($1 + $2)', c=Coll(fl, 'tuple'))
        r3 = val('$c.select($).sum()', c=Coll(fl, 'tuple'))
        if fl and (repr(r1) != repr(r2) or repr(r1) != repr(r3)):
            bad('sum-is-fold-of-plus', 'sum() = %r, aggregate($1 + $2) = %r, select($).sum() = %r on %r' % (r1, r2, r3, fl), c)
        r1 = val('$c.sum(0.5)', c=Coll(fl, 'tuple'))
        r2 = val('$c.aggregate($1 + $2, 0.5)', c=Coll(fl, 'tuple'))
        if repr(r1) != repr(r2):
            bad('sum-is-fold-of-plus', 'sum(0.5) = %r, aggregate($1 + $2, 0.5) = %r on %r' % (r1, r2, fl), c)
        # ordering uses each element's own key, also for elements that are equal to one another
        recs = [{'k': rng.choice([1, 2]), 'v': rng.choice([1, 1.0, True]) if rng.random() < 0.5 else rng.choice([0, 0.0, False])}
                for _ in range(rng.randrange(2, 6))]
        r = val('$c.select($.v).orderBy(str($)).select(str($))', c=Coll(recs, 'tuple'))
        want = sorted((ml.yaql_str(x['v']) for x in recs))
        if r[0] == 'value' and list(r[1]) != want:
            bad('orderBy-own-key-of-equal-elements', 'orderBy(str($)) over %r gives %r, sorted keys are %r' % (
                [x['v'] for x in recs], r[1], want), c)
        if i % 100 == 0:
            rec.sample({'law-input': c.desc()})


PIPE_STAGES = [
    ('.select({l})', lambda c, l: ml.m_select(c, l), ml.SELECTORS[:3] + ml.SELECTORS[4:6]),
    ('.where({l})', lambda c, l: ml.m_where(c, l), ml.PREDICATES),
    ('.skip({n})', lambda c, n: ml.m_skip(c, n), 'nat'),
    ('.take({n})', lambda c, n: ml.m_take(c, n), 'nat'),
    ('.takeWhile({l})', lambda c, l: ml.m_take_while(c, l), ml.PREDICATES),
    ('.skipWhile({l})', lambda c, l: ml.m_skip_while(c, l), ml.PREDICATES),
    ('.distinct()', lambda c: ml.m_distinct(c), None),
    ('.reverse()', lambda c: iter(list(reversed(list(c)))), None),
    ('.orderBy({l})', lambda c, l: ml.m_order_by(c, [(l, True)]), ml.SELECTORS[:2] + ml.SELECTORS[4:6]),
    ('.append({n})', lambda c, n: ml.m_append(c, n), 'nat'),
    ('.insert({n}, 77)', lambda c, n: ml.m_insert(c, n, 77), 'nat'),
    ('.delete({n})', lambda c, n: ml.m_delete(c, n), 'nat'),
    ('.replace({n}, 77)', lambda c, n: ml.m_replace(c, n, 77), 'nat'),
    ('.enumerate().select($[0] + $[1])', lambda c: (i + x for i, x in ((i, x) for i, x in enumerate(c))), None),
    ('.accumulate($1 + $2)', lambda c: ml.m_accumulate(c, lambda a, b: ml.op('+', a, b)), None),
    ('.memorize()', lambda c: ml.m_memorize(c), None),
    ('.toList()', lambda c: list(c), None),
    ('.selectMany([$, $ + 1])', lambda c: ml.m_select_many(c, lambda x: [x, ml.op('+', x, 1)]), None),
    ('.concat([1, 2])', lambda c: ml.m_concat(c, [1, 2]), None),
    ('.zip(range(3)).select($[0] * $[1])', lambda c: (ml.op('*', a, b) for a, b in ml.m_zip(c, range(3))), None),
]
PIPE_SINKS = [
    ('', lambda c: list(c)), ('.len()', lambda c: ml.yaql_len(c if hasattr(c, '__next__') else list(c))),
    ('.sum(0)', lambda c: ml.m_sum(c, 0)), ('.first(null)', lambda c: ml.m_first(c, None)),
    ('.last(null)', lambda c: ml.m_last(c, None)), ('.toList()', lambda c: list(c)),
    ('.any($ > 2)', lambda c: ml.m_any(c, lambda x: ml.op('>', x, 2))), ('.max(0)', lambda c: ml.m_max(c, 0)),
    ('.indexOf(2)', lambda c: ml.m_index_of(c, 2)), ('.aggregate($1 + $2, 0)', lambda c: ml.m_aggregate(c, lambda a, b: ml.op('+', a, b), 0)),
]


def _pipelines(spec, mon, rec, rng):
    for i in range(spec['count']):
        c = gen_coll(rng, rng.choice(['int', 'int', 'int', 'null']), kinds=('tuple', 'iter'))
        text = '$c'
        stages = []
        for _ in range(rng.choice((1, 2, 3, 4))):
            tmpl, model, arg = rng.choice(PIPE_STAGES)
            if arg == 'nat':
                n = rng.randrange(0, len(c.elems) + 2)
                text += tmpl.format(n=n)
                stages.append((model, n))
            elif arg:
                l = pick(rng, arg)
                text += tmpl.format(l=l.text)
                stages.append((model, l))
            else:
                text += tmpl
                stages.append((model, None))
        sink_t, sink_m = rng.choice(PIPE_SINKS)
        text += sink_t

        def thunk():
            cur = c.model()
            for model, a in stages:
                cur = model(cur, a) if a is not None else model(cur)
            return sink_m(cur)
        rec.count('pipelines')
        rec.count('kind.' + c.kind)
        desc = 'c=' + c.desc()
        rec.case((text, desc), nontrivial=bool(c.elems))
        mon.compare('pipeline', text, {'c': c.real()}, thunk, False, desc,
                    replay={'kind': 'pipeline', 'shard': spec['name'], 'index': i, 'count': spec['count']})
        if i % 200 == 0:
            rec.sample({'pipeline': text, 'input': desc})


def replay(data, rec):
    """cases are regenerated from (seed, shard, index); the whole shard prefix is re-run"""
    print('re-running shard %s of the recorded seed up to the failing case' % data.get('shard'))
    spec = {'name': data.get('shard', 'fn-0'), 'seed': rec.spec['seed'], 'tier': rec.spec['tier'],
            'per_fn': data.get('per_fn', 12), 'count': data.get('count', 500)}
    kind = {'fn': 'functions', 'dict': 'dicts', 'law': 'laws', 'pipeline': 'pipelines'}.get(data['kind'], 'functions')
    if kind == 'laws':
        spec['name'] = 'laws-0'
        spec['count'] = 200
    mon = Mon(rec)
    try:
        globals()['_' + kind](spec, mon, rec, rng_for(spec['seed'], 'c13', spec['name']))
    finally:
        mon.close()


def selftest():
    ml.selftest()
    specs()
