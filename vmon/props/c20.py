"""C20 - date/time values denote instants consistently.

Oracle: vmon.model.dates - instants as (UTC microseconds, offset microseconds)
with Python integer arithmetic; every yaql result (unfinalised) is converted to
that pair by the harness with integer arithmetic and compared.  Identities of
the statement are monitored directly on the values the real functions produce.
"""
import datetime

from dateutil import tz as dtz
import yaql

from vmon import catalogue as cat
from vmon import hooks
from vmon import yq
from vmon.core import rng_for
from vmon.model import dates as md

RULE = ('a case is (date/time term, operands: datetimes built in yaql or supplied by the host as naive / aware objects, '
        'offsets at minute resolution, timespans from integer components, timestamps); distinct by (expression text, '
        'operand values); non-trivial = every case (each exercises one function or operator of date_time.py)')
ASSUMPTIONS = [
    'float identities use a tolerance of 1 microsecond plus float rounding (relative 1e-12); integer identities are exact',
    'results outside years 1..9999 must raise on the yaql side (any exception class) and are counted separately',
    'terms that go through a float timestamp may raise within the last second of year 9999 / first of year 1 (float rounding leaves the range)',
    'a datetime whose UTC form lies outside years 1..9999 (within a day of the ends of the range, at a non-zero offset) cannot be '
    'converted between offsets by the host datetime type: an error is accepted for operations on it, a returned value must still be right',
    'only fixed offsets are generated (yaql has no named zones)',
]
REQUIRED = {'zone.non-utc-process-shards': 4, 'kind.aware-dst': 500, 'cases': 3000, 'kind.naive': 200, 'kind.aware-zero': 200, 'kind.aware-nonzero': 500, 'kind.yaql-built': 500,
            'agree': 2500, 'agree.out-of-range': 5, 'identity.checked': 1000, 'pr.*': 45}

EPOCH_ORD = datetime.date(1970, 1, 1).toordinal()
US = 10 ** 6


def to_pair(dt):
    """python datetime -> (U, O) with integer arithmetic only"""
    days = dt.toordinal() - EPOCH_ORD
    loc = ((days * 24 + dt.hour) * 60 + dt.minute) * 60 * US + dt.second * US + dt.microsecond
    off = dt.utcoffset()
    o = 0 if off is None else (off.days * 86400 + off.seconds) * US + off.microseconds
    return (loc - o, o)


def td_us(td):
    return (td.days * 86400 + td.seconds) * US + td.microseconds


class Val:
    """an operand: python object for the host side + model value + a label"""

    def __init__(self, obj, model, kind):
        self.obj = obj
        self.model = model
        self.kind = kind


def gen_offset_min(rng):
    return rng.choice([0, 0, 0, 60, -60, 180, 330, -480, 1439, -1439, 765, rng.randrange(-1439, 1440)])


def gen_civil(rng):
    r = rng.random()
    if r < 0.15:
        y = rng.choice([1, 2, 9998, 9999])
    elif r < 0.3:
        y = rng.choice([1969, 1970, 1971, 2000, 1900, 2038, 2100])
    else:
        y = rng.randrange(1, 10000)
    mo = rng.randrange(1, 13)
    dim = [31, 29 if (y % 4 == 0 and (y % 100 != 0 or y % 400 == 0)) else 28, 31, 30, 31, 30, 31, 31, 30, 31, 30, 31][mo - 1]
    d = rng.choice([1, dim, rng.randrange(1, dim + 1)])
    h = rng.choice([0, 23, rng.randrange(24)])
    mi = rng.choice([0, 59, rng.randrange(60)])
    s = rng.choice([0, 59, rng.randrange(60)])
    us = rng.choice([0, 999999, 1, rng.randrange(10 ** 6)])
    return y, mo, d, h, mi, s, us


def gen_datetime(rng):
    """-> Val (host object) and, for yaql-built ones, the yaql text that builds it"""
    y, mo, d, h, mi, s, us = gen_civil(rng)
    om = gen_offset_min(rng)
    kind = rng.choice(['naive', 'aware-tz', 'aware-dateutil', 'yaql-built', 'yaql-built', 'yaql-built'])
    try:
        if kind == 'naive':
            obj = datetime.datetime(y, mo, d, h, mi, s, us)
            return Val(obj, md.make(y, mo, d, h, mi, s, us, 0), 'naive'), None
        tzinfo = (datetime.timezone(datetime.timedelta(minutes=om)) if kind == 'aware-tz' else
                  (dtz.tzutc() if om == 0 else dtz.tzoffset(None, om * 60)))
        obj = datetime.datetime(y, mo, d, h, mi, s, us, tzinfo)
        model = md.make(y, mo, d, h, mi, s, us, om * 60 * US)
        if kind == 'yaql-built':
            text = 'datetime(%d, %d, %d, %d, %d, %d, %d, timespan(minutes => %d))' % (y, mo, d, h, mi, s, us, om)
            return Val(obj, model, 'yaql-built'), text
        return Val(obj, model, 'aware-zero' if om == 0 else 'aware-nonzero'), None
    except (ValueError, OverflowError):
        return gen_datetime(rng)


def gen_timespan(rng):
    r = rng.random()
    if r < 0.2:
        comps = {'days': rng.choice([0, 1, -1, 365, -365, 10000])}
    elif r < 0.4:
        comps = {'seconds': rng.choice([0, 1, -1, 59, 86400, -90])}
    else:
        comps = {'days': rng.randrange(-400, 401), 'hours': rng.randrange(-30, 31), 'minutes': rng.randrange(-70, 71),
                 'seconds': rng.randrange(-100, 101), 'milliseconds': rng.randrange(-2000, 2001),
                 'microseconds': rng.randrange(-2 * 10 ** 6, 2 * 10 ** 6)}
    t = md.timespan(**comps)
    text = 'timespan(%s)' % ', '.join('%s => %d' % kv for kv in comps.items())
    return Val(datetime.timedelta(microseconds=t), t, 'timespan'), text, comps


class Mon:
    def __init__(self, rec):
        self.rec = rec
        self.eng = yq.engine({'yaql.convertOutputData': False})
        self.ctx = yaql.create_context()
        self.reach = hooks.Reach()
        for o in cat.build(self.ctx):
            if o.code_owner.__module__.endswith('date_time'):
                self.reach.watch(o.code_owner, 'payload.date_time.%s' % o.code_owner.__name__)
        self.reach.start()

    def close(self):
        for k in list(self.reach.counts):
            if self.reach.counts[k]:
                self.rec.count('pr.' + k[len('payload.'):], self.reach.counts[k])
            del self.reach.counts[k]
        self.reach.stop()

    def run(self, text, vars_):
        ctx = self.ctx.create_child_context()
        for k, v in vars_.items():
            ctx[k] = v
        try:
            return ('value', self.eng(text).evaluate(context=ctx))
        except Exception as e:
            return ('error', type(e).__name__, str(e)[:80])


def close_float(a, b, scale=1.0):
    return abs(a - b) <= 1e-6 * scale + 1e-12 * max(abs(a), abs(b)) * 4


def utc_form_outside(values):
    for v in values:
        if isinstance(v, datetime.datetime) and v.tzinfo is not None:
            try:
                v.astimezone(datetime.timezone.utc)
            except (OverflowError, ValueError):
                return True
    return False


def check(mon, rec, name, text, vars_, expect, kinds, kind='pair', replay=None):
    """expect: thunk returning the model value, may raise md.OutOfRange
    kind: pair | ts (timespan us) | exact | float | float-us (float compared at 1us)"""
    got = mon.run(text, vars_)
    rec.count('cases')
    rec.count('fn.' + name)
    for k in kinds:
        rec.count('kind.' + k)
    desc = '%s with %s' % (text, {k: repr(v) for k, v in vars_.items()})
    rec.case((text, repr(sorted((k, repr(v)) for k, v in vars_.items()))))
    rp = replay or {'kind': 'none'}
    try:
        want = expect()
    except md.OutOfRange:
        if got[0] == 'error':
            rec.count('agree.out-of-range')
            rec.count('agree')
        else:
            rec.violation('date-result-outside-range-not-refused:%s' % name, '%s returned %r although the result lies outside '
                          'years 1..9999' % (desc, got[1]), rp)
        return None
    edge = kind.startswith('pair') and (want[0] + want[1] > md.MAX_LOCAL - US or want[0] + want[1] < md.MIN_LOCAL + US)
    if got[0] == 'error' and edge and 'timestamp' in name:
        # a float number of seconds has a resolution of ~30 us at the ends of the range: within the last second of year
        # 9999 (first of year 1) rounding may leave the representable range
        rec.count('agree.float-rounding-at-range-end')
        rec.count('agree')
        return None
    if got[0] == 'error' and (utc_form_outside(vars_.values()) or (kind == 'pair' and not (md.MIN_LOCAL <= want[0] <= md.MAX_LOCAL))):
        # the host datetime type converts between offsets through the UTC form; when that form lies outside
        # years 1..9999 the conversion itself is impossible and an error is the only possible outcome
        rec.count('agree.utc-form-out-of-range')
        rec.count('agree')
        return None
    if got[0] == 'error':
        naive = 'naive' in kinds
        rec.violation('date-function-raises:%s:%s%s' % (name, got[1], ':naive-host-datetime' if naive else ''),
                      '%s raised %s: %s; the model gives %r' % (desc, got[1], got[2], want), rp)
        return None
    v = got[1]
    ok = True
    try:
        if kind == 'pair':
            ok = isinstance(v, datetime.datetime) and to_pair(v) == want
            shown = to_pair(v) if isinstance(v, datetime.datetime) else v
        elif kind == 'pair-1us':
            p = to_pair(v)
            ok = abs(p[0] - want[0]) <= max(1, abs(want[0]) >> 50) and p[1] == want[1]
            shown = p
        elif kind == 'ts':
            ok = isinstance(v, datetime.timedelta) and td_us(v) == want
            shown = td_us(v) if isinstance(v, datetime.timedelta) else v
        elif kind == 'ts-1us':
            ok = isinstance(v, datetime.timedelta) and abs(td_us(v) - want) <= 1
            shown = td_us(v) if isinstance(v, datetime.timedelta) else v
        elif kind == 'exact':
            ok = type(v) is type(want) and v == want
            shown = v
        elif kind == 'float':
            ok = isinstance(v, float) and close_float(v, want)
            shown = v
        elif kind == 'float-us':
            # seconds as a float vs an exact number of microseconds
            ok = isinstance(v, (int, float)) and abs(v * US - want) <= 1 + abs(want) * 4e-16 * 4
            shown = v
    except Exception as e:
        ok = False
        shown = 'unconvertible %r (%s)' % (v, e)
    if ok:
        rec.count('agree')
    else:
        naive = 'naive' in kinds
        rec.violation('date-result-differs-from-instant-model:%s%s' % (name, ':naive-host-datetime' if naive else ''),
                      '%s gives %r, the instant model gives %r' % (desc, shown, want), rp)
    return v


FIELD_NAMES = ['year', 'month', 'day', 'hour', 'minute', 'second', 'microsecond', 'weekday']


def one_round(mon, rec, rng, rp):
    d, dtext = gen_datetime(rng)
    d2, d2text = gen_datetime(rng)
    t, ttext, tcomps = gen_timespan(rng)
    t2, t2text, _ = gen_timespan(rng)
    D = dtext or '$d'
    D2 = d2text or '$e'
    vars_ = {'d': d.obj, 'e': d2.obj, 't': t.obj, 'u': t2.obj}
    K = [d.kind]
    K2 = [d.kind, d2.kind]
    dm, em, tm, um = d.model, d2.model, t.model, t2.model
    # construction and fields
    check(mon, rec, 'construct', D, vars_, lambda: dm, K, replay=rp)
    f = md.fields(dm)
    for name in rng.sample(FIELD_NAMES, 3):
        check(mon, rec, name, '%s.%s' % (D, name), vars_, lambda name=name: f[name], K, 'exact', rp)
    check(mon, rec, 'offset', '%s.offset' % D, vars_, lambda: dm[1], K, 'ts', rp)
    check(mon, rec, 'utc', '%s.utc' % D, vars_, lambda: md.utc(dm), K, replay=rp)
    check(mon, rec, 'timestamp', '%s.timestamp' % D, vars_, lambda: dm[0], K, 'float-us', rp)
    check(mon, rec, 'date', '%s.date' % D, vars_, lambda: md.date(dm), K, replay=rp)
    check(mon, rec, 'time', '%s.time' % D, vars_, lambda: md.time_of_day(dm), K, 'ts', rp)
    check(mon, rec, 'isDatetime', 'isDatetime(%s)' % D, vars_, lambda: True, K, 'exact', rp)
    # timestamps
    s_int = dm[0] // US
    om = dm[1] // (60 * US)
    check(mon, rec, 'from-timestamp', 'datetime(%d, timespan(minutes => %d))' % (s_int, om), vars_,
          lambda: md.check_range((s_int * US, dm[1])), ['yaql-built'], replay=rp)
    check(mon, rec, 'from-timestamp.timestamp', 'datetime(%d, timespan(minutes => %d)).timestamp' % (s_int, om), vars_,
          lambda: md.check_range((s_int * US, dm[1]))[0], ['yaql-built'], 'float-us', rp)
    sf = dm[0] / US
    if 1e9 > abs(sf):
        check(mon, rec, 'from-float-timestamp', 'datetime($s, timespan(minutes => %d)).timestamp' % om, dict(vars_, s=sf),
              lambda: md.check_range((dm[0], dm[1]))[0], ['yaql-built'], 'float-us', rp)
    check(mon, rec, 'timestamp-roundtrip', 'datetime(%s.timestamp, %s.offset)' % (D, D), vars_,
          lambda: md.check_range(dm), K, 'pair-1us', rp)
    # arithmetic identities
    check(mon, rec, 'plus', '%s + $t' % D, vars_, lambda: md.add(dm, tm), K, replay=rp)
    check(mon, rec, 'plus-rev', '$t + %s' % D, vars_, lambda: md.add(dm, tm), K, replay=rp)
    check(mon, rec, 'minus', '%s - $t' % D, vars_, lambda: md.add(dm, -tm), K, replay=rp)
    check(mon, rec, 'plus-minus', '(%s + $t) - $t' % D, vars_, lambda: (md.add(dm, tm), dm)[1], K, replay=rp)
    check(mon, rec, 'plus-minus-self', '(%s + $t) - %s' % (D, D), vars_, lambda: (md.add(dm, tm), tm)[1], K, 'ts', rp)
    check(mon, rec, 'diff', '%s - %s' % (D, D2), vars_, lambda: dm[0] - em[0], K2, 'ts', rp)
    rec.count('identity.checked', 4)
    # equality and ordering compare instants
    for op, fn in (('<', lambda a, b: a < b), ('<=', lambda a, b: a <= b), ('>', lambda a, b: a > b), ('>=', lambda a, b: a >= b)):
        check(mon, rec, 'cmp' + op, '%s %s %s' % (D, op, D2), vars_, lambda fn=fn: fn(dm[0], em[0]), K2, 'exact', rp)
    same_instant = rng.random() < 0.5
    if same_instant:
        # the same instant expressed at another offset
        om2 = gen_offset_min(rng)
        try:
            p2 = md.check_range((dm[0], om2 * 60 * US))
            f2 = md.fields(p2)
            e_text = 'datetime(%d, %d, %d, %d, %d, %d, %d, timespan(minutes => %d))' % (
                f2['year'], f2['month'], f2['day'], f2['hour'], f2['minute'], f2['second'], f2['microsecond'], om2)
            mixed = d.kind == 'naive'
            check(mon, rec, 'eq-same-instant' + ('-naive-vs-aware' if mixed else ''), '%s = %s' % (D, e_text), vars_,
                  lambda: True, K, 'exact', rp)
            check(mon, rec, 'neq-same-instant' + ('-naive-vs-aware' if mixed else ''), '%s != %s' % (D, e_text), vars_,
                  lambda: False, K, 'exact', rp)
            check(mon, rec, 'cmp-same-instant', '%s <= %s and %s >= %s and not (%s < %s)' % (D, e_text, D, e_text, D, e_text),
                  vars_, lambda: True, K, 'exact', rp)
            check(mon, rec, 'utc-same-instant', '%s.utc = (%s).utc' % (D, e_text), vars_, lambda: (md.utc(dm), True)[1], K, 'exact', rp)
            rec.count('identity.checked', 3)
        except md.OutOfRange:
            pass
    # instants a few microseconds apart, at any distance from 1970 and at another offset: ordering has the full
    # microsecond resolution of the values (a float number of seconds has not)
    delta = rng.choice([1, -1, 2, -3, 999, 1000000, -1000001])
    om3 = gen_offset_min(rng)
    try:
        p3 = md.check_range((dm[0] + delta, om3 * 60 * US))
        md.check_range((dm[0] + delta, 0))
        f3 = md.fields(p3)
        n_text = 'datetime(%d, %d, %d, %d, %d, %d, %d, timespan(minutes => %d))' % (
            f3['year'], f3['month'], f3['day'], f3['hour'], f3['minute'], f3['second'], f3['microsecond'], om3)
        for op, fn in (('<', lambda a, b: a < b), ('<=', lambda a, b: a <= b), ('>', lambda a, b: a > b), ('>=', lambda a, b: a >= b),
                       ('=', lambda a, b: a == b)):
            check(mon, rec, 'cmp-near' + op, '%s %s %s' % (D, op, n_text), vars_, lambda fn=fn: fn(0, delta), K, 'exact', rp)
        check(mon, rec, 'diff-near', '(%s - %s).microseconds' % (n_text, D), vars_, lambda: delta, K, 'exact', rp)
        rec.count('identity.checked', 2)
    except md.OutOfRange:
        pass
    mixed_eq = ('naive' in K2) and not all(k == 'naive' for k in K2)
    check(mon, rec, 'eq' + ('-naive-vs-aware' if mixed_eq else ''), '%s = %s' % (D, D2), vars_, lambda: dm[0] == em[0], K2, 'exact', rp)
    # replace
    ny = rng.choice([None, 2000, 1, 9999])
    nh = rng.choice([None, 0, 23])
    no = rng.choice([None, 0, 90, -300])
    args = ', '.join('%s => %s' % (k, v if k != 'offset' else 'timespan(minutes => %d)' % v)
                     for k, v in (('year', ny), ('hour', nh), ('offset', no)) if v is not None)
    check(mon, rec, 'replace', '%s.replace(%s)' % (D, args), vars_,
          lambda: md.replace(dm, year=ny, hour=nh, offset=None if no is None else no * 60 * US), K, replay=rp)
    if md.fields(dm)['year'] >= 1000:
        check(mon, rec, 'format', "%s.format('%%Y-%%m-%%d %%H:%%M:%%S')" % D, vars_,
              lambda: '%04d-%02d-%02d %02d:%02d:%02d' % (f['year'], f['month'], f['day'], f['hour'], f['minute'], f['second']),
              K, 'exact', rp)
        iso = '%04d-%02d-%02dT%02d:%02d:%02d.%06d%s%02d:%02d' % (
            f['year'], f['month'], f['day'], f['hour'], f['minute'], f['second'], f['microsecond'],
            '+' if dm[1] >= 0 else '-', abs(dm[1]) // (3600 * US), abs(dm[1]) // (60 * US) % 60)
        check(mon, rec, 'from-string', 'datetime($iso)', dict(vars_, iso=iso), lambda: dm, ['yaql-built'], replay=rp)
        check(mon, rec, 'from-string-format', "datetime($txt, '%Y-%m-%d %H:%M:%S')",
              dict(vars_, txt='%04d-%02d-%02d %02d:%02d:%02d' % (f['year'], f['month'], f['day'], f['hour'], f['minute'], f['second'])),
              lambda: md.make(f['year'], f['month'], f['day'], f['hour'], f['minute'], f['second'], 0, 0), ['yaql-built'], replay=rp)
    # timespans
    T = ttext if rng.random() < 0.5 else '$t'
    check(mon, rec, 'timespan', T, vars_, lambda: tm, ['timespan'], 'ts', rp)
    check(mon, rec, 'microseconds', '%s.microseconds' % T, vars_, lambda: tm, ['timespan'], 'exact', rp)
    for unit, div in (('milliseconds', 1000.0), ('seconds', 1e6), ('minutes', 6e7), ('hours', 3.6e9), ('days', 8.64e10)):
        check(mon, rec, unit, '%s.%s' % (T, unit), vars_, lambda div=div: tm / div, ['timespan'], 'float', rp)
    check(mon, rec, 'units-consistent', '[%s.days * 24, %s.hours * 60, %s.minutes * 60, %s.seconds * 1000, %s.milliseconds * 1000]' % (
        T, T, T, T, T), vars_, lambda: None, ['timespan'], 'skip', rp) if False else None
    r = mon.run('[%s.days * 24 - %s.hours, %s.hours * 60 - %s.minutes, %s.minutes * 60 - %s.seconds, '
                '%s.seconds * 1000000 - %s.microseconds]' % ((T,) * 8), vars_)
    rec.count('identity.checked')
    if r[0] != 'value' or not all(abs(x) <= 1e-9 * max(1.0, abs(tm)) for x in r[1]):
        rec.violation('timespan-units-inconsistent', 'unit properties of %s (%d us) disagree: residuals %r' % (T, tm, r), rp)
    check(mon, rec, 'timespan-roundtrip', 'timespan(microseconds => %s.microseconds) = %s' % (T, T), vars_, lambda: True,
          ['timespan'], 'exact', rp)
    check(mon, rec, 'ts-plus', '$t + $u', vars_, lambda: tm + um, ['timespan'], 'ts', rp)
    check(mon, rec, 'ts-minus', '$t - $u', vars_, lambda: tm - um, ['timespan'], 'ts', rp)
    check(mon, rec, 'ts-neg', '-$t', vars_, lambda: -tm, ['timespan'], 'ts', rp)
    check(mon, rec, 'ts-pos', '+$t', vars_, lambda: tm, ['timespan'], 'ts', rp)
    n = rng.choice([0, 1, -1, 2, 3, 7, -5])
    check(mon, rec, 'ts-mul', '$t * %d' % n, vars_, lambda: tm * n, ['timespan'], 'ts', rp)
    check(mon, rec, 'ts-mul-rev', '(%d) * $t' % n, vars_, lambda: tm * n, ['timespan'], 'ts', rp)
    if n:
        check(mon, rec, 'ts-div', '$t / %d' % n, vars_, lambda: _round_half_even(tm, n), ['timespan'], 'ts-1us', rp)
    if um:
        check(mon, rec, 'ts-ratio', '$t / $u', vars_, lambda: tm / um, ['timespan'], 'float', rp)
    for op, fn in (('<', lambda a, b: a < b), ('<=', lambda a, b: a <= b), ('>', lambda a, b: a > b), ('>=', lambda a, b: a >= b),
                   ('=', lambda a, b: a == b)):
        check(mon, rec, 'ts-cmp' + op, '$t %s $u' % op, vars_, lambda fn=fn: fn(tm, um), ['timespan'], 'exact', rp)
    check(mon, rec, 'isTimespan', 'isTimespan($t) and not isTimespan(%s)' % D, vars_, lambda: True, ['timespan'], 'exact', rp)


def _round_half_even(a, n):
    q, r = divmod(a, n)
    return q + (1 if 2 * abs(r) > abs(n) or (2 * abs(r) == abs(n) and q % 2) else 0) if n > 0 else _round_half_even(-a, -n)


def plan(tier, seed):
    thorough = tier == 'thorough'
    # the process time zone is no part of the meaning: half of the shards run under a non-UTC TZ
    zones = [None, 'JST-9', None, 'EST5EDT,M3.2.0,M11.1.0', None, 'NPT-5:45', None, 'CET-1CEST,M3.5.0,M10.5.0/3']
    shards = []
    for p in range(16):
        sp = {'name': 'dates-%d' % p, 'kind': 'dates', 'count': 1200 if thorough else 50, 'timeout': 3000}
        if zones[p % len(zones)]:
            sp['env'] = {'TZ': zones[p % len(zones)]}
        shards.append(sp)
    return shards


def dst_round(mon, rec, rng):
    """host datetimes whose tzinfo has a variable offset (daylight saving rules): adding a timespan is wall-clock
    arithmetic there, and it stays invertible - (d + t) - t = d, (d + t) - d = t, d - (d - t) = t"""
    z = dtz.tzstr(rng.choice(['CET-1CEST,M3.5.0,M10.5.0/3', 'EST5EDT,M3.2.0,M11.1.0', 'AEST-10AEDT,M10.1.0,M4.1.0/3']))
    y = rng.choice([2021, 2022, 2030])
    d = datetime.datetime(y, rng.choice([3, 3, 10, 11, 4, 6]), rng.randrange(1, 29), rng.randrange(24), rng.choice([0, 30]), tzinfo=z)
    t = datetime.timedelta(days=rng.choice([0, 1, 7, 30, 200]), hours=rng.choice([0, 1, 3, 23]), minutes=rng.choice([0, 30]))
    if rng.random() < 0.3:
        t = -t
    for name, text, want in (('dst-plus-minus-self', '($d + $t) - $d = $t', True), ('dst-plus-minus', '(($d + $t) - $t) - $d = timespan(0)', True),
                             ('dst-rev-plus', '($t + $d) - $d = $t', True), ('dst-minus-minus', '$d - ($d - $t) = $t', True)):
        got = mon.run(text, {'d': d, 't': t})
        rec.count('cases')
        rec.count('fn.' + name)
        rec.count('kind.aware-dst')
        rec.case((text, repr(d), repr(t)))
        if got == ('value', want):
            rec.count('agree')
        else:
            rec.violation('date-law-broken:%s' % name, '%s with d=%r t=%r gives %r' % (text, d, t, got), {'kind': 'dst'})


def subsecond_offset_round(mon, rec, rng):
    """offsets are timespans with microsecond resolution: an offset with a fractional-second part is kept exactly and
    moves the instant by exactly that much"""
    y, mo, d, h, mi, s_, us = gen_civil(rng)
    om = gen_offset_min(rng)
    ms = rng.choice([500, 1, 250, 999, -500])
    off_us = om * 60 * US + ms * 1000
    if abs(off_us) >= 86400 * US:
        return
    off_text = 'timespan(minutes => %d, milliseconds => %d)' % (om, ms)
    D = 'datetime(%d, %d, %d, %d, %d, %d, %d, %s)' % (y, mo, d, h, mi, s_, us, off_text)
    try:
        dm = md.check_range(md.make(y, mo, d, h, mi, s_, us, off_us))
        md.check_range((dm[0], 0))
    except md.OutOfRange:
        return
    fu = md.fields((dm[0], 0))
    U = 'datetime(%d, %d, %d, %d, %d, %d, %d, timespan(0))' % (fu['year'], fu['month'], fu['day'], fu['hour'], fu['minute'], fu['second'], fu['microsecond'])
    for name, text, want in (('subsecond-offset', '%s.offset.microseconds' % D, off_us), ('subsecond-offset-eq-utc', '%s = %s' % (D, U), True),
                             ('subsecond-offset-utc-fields', '%s.utc.microsecond' % D, fu['microsecond']),
                             ('subsecond-offset-diff', '(%s - %s).microseconds' % (D, U), 0),
                             ('subsecond-offset-replace', '%s.replace(offset => %s).offset.microseconds' % (U, off_text), off_us)):
        got = mon.run(text, {})
        rec.count('cases')
        rec.count('fn.' + name)
        rec.count('kind.yaql-built')
        rec.case((text,))
        if got == ('value', want) or (got[0] == 'value' and isinstance(want, int) and not isinstance(want, bool) and got[1] == want):
            rec.count('agree')
        else:
            rec.violation('date-result-differs-from-instant-model:%s' % name, '%s gives %r, the instant model gives %r' % (text, got, want),
                          {'kind': 'subsecond'})


def generic_functions_round(mon, rec, rng):
    """generic ordering functions over date/time values agree with the comparison operators, whatever form the host
    handed the instants over in (naive = UTC, or zone-aware at any offset).  Membership functions (in, indexOf,
    contains) are not judged: they use python's equality of the elements for every type, under which a naive and an
    aware datetime are never equal - the statement speaks of equality and ordering, i.e. the operators and what is
    built on them (characterised)."""
    base = datetime.datetime(1990 + rng.randrange(60), rng.randrange(1, 13), rng.randrange(1, 28), rng.randrange(24), rng.randrange(60))
    UTC = datetime.timezone.utc

    def form(inst, kind):
        if kind == 'naive':
            return inst
        h = rng.choice((-11, -5, 0, 1, 2, 5, 9, 13))
        return (inst + datetime.timedelta(hours=h)).replace(tzinfo=datetime.timezone(datetime.timedelta(hours=h)))
    insts = [base + datetime.timedelta(seconds=rng.choice((0, 0, 1, -1, 3600, -7200, 86400))) for _ in range(3)]
    kinds = [rng.choice(('naive', 'aware')) for _ in range(3)]
    if len(set(kinds)) == 1 and rng.random() < 0.7:
        kinds[rng.randrange(3)] = 'aware' if kinds[0] == 'naive' else 'naive'
    vals = [form(i, k) for i, k in zip(insts, kinds)]
    v = {'a': vals[0], 'b': vals[1], 'c': vals[2], 'l': list(vals)}
    hi, lo = max(insts), min(insts)
    names = 'abc'
    tag = ':mixed-naive-aware' if len(set(kinds)) > 1 else ''
    checks = [('generic-max2', 'max($a, $b) = $%s' % names[insts.index(max(insts[:2]))], True),
              ('generic-min2', 'min($a, $b) = $%s' % names[insts.index(min(insts[:2]))], True),
              ('generic-list-max', '$l.max() = $%s' % names[insts.index(hi)], True),
              ('generic-list-min', '$l.min() = $%s' % names[insts.index(lo)], True),
              ('generic-literal-list-max', '[$a, $b, $c].max() = $%s' % names[insts.index(hi)], True),
              ('generic-orderBy-first', '$l.orderBy($).first() = $%s' % names[insts.index(lo)], True),
              ('generic-orderBy-last', '$l.orderBy($).last() = $%s' % names[insts.index(hi)], True),
              ('generic-orderByDescending-first', '$l.orderByDescending($).first() = $%s' % names[insts.index(hi)], True),
              ('generic-max-initial', '[$a].max($b) = $%s' % names[insts.index(max(insts[:2]))], True),
              ('generic-where-lt', '$l.where($ < $a).len()', sum(1 for i in insts if i < insts[0])),
              ('generic-where-eq', '$l.where($ = $a).len()', sum(1 for i in insts if i == insts[0]))]
    for name, text, want in checks:
        got = mon.run(text, v)
        rec.count('cases')
        rec.count('fn.' + name)
        rec.count('kind.host-built')
        rec.count('generic.cases')
        rec.case((text, repr(vals)))
        if got[0] == 'value' and got[1] == want and type(got[1]) is type(want):
            rec.count('agree')
        else:
            rec.violation('date-result-differs-from-instant-model:%s%s' % (name, tag),
                          '%s with a=%r b=%r c=%r gives %r, the instant model gives %r' % (text, vals[0], vals[1], vals[2], got, want),
                          {'kind': 'generic'})


def run_shard(spec, rec):
    import os
    import time as _time
    if os.environ.get('TZ'):
        _time.tzset()
        rec.count('zone.non-utc-process-shards')
    mon = Mon(rec)
    try:
        rng = rng_for(spec['seed'], 'c20', spec['name'])
        for i in range(spec['count']):
            one_round(mon, rec, rng, {'kind': 'round', 'shard': spec['name'], 'count': spec['count']})
            dst_round(mon, rec, rng)
            generic_functions_round(mon, rec, rng)
            subsecond_offset_round(mon, rec, rng)
            if i % 20 == 0:
                rec.sample({'round': i, 'shard': spec['name'], 'terms': ['$d.utc', '$d.timestamp', '($d + $t) - $t', '$d < $e']})
    finally:
        mon.close()


def replay(data, rec):
    print('C20 cases are regenerated from their seed; re-running shard %s' % data.get('shard'))
    run_shard({'name': data.get('shard', 'dates-0'), 'kind': 'dates', 'count': data.get('count', 50),
               'seed': rec.spec['seed'], 'tier': rec.spec['tier']}, rec)


def selftest():
    md.selftest()
