"""C05 - overload resolution follows the documented resolution rules.

Oracle: vmon.model.resolve.  Every generated overload is a real python function
registered through the real decorators; it returns its own tag and the
arguments it was bound to.  Every eager argument is wrapped in a tick() probe
so that "evaluated once, shared by all candidates" is observed directly.
"""
import yaql
from yaql.language import contexts as yctx
from yaql.language import exceptions as yexc
from yaql.language import runner as yrunner
from yaql.language import specs as yspecs
from yaql.language import yaqltypes as yt

from vmon import families as fam
from vmon import hooks
from vmon import yq
from vmon.core import rng_for
from vmon.model import resolve as mr

RULE = ('a case is (overload family spread over 1-4 context layers with optional exclusivity, call); distinct by '
        '(family description, call); non-trivial = at least two overloads of the name are visible to the call, or '
        'the call uses skipped/keyword/constant arguments')
ASSUMPTIONS = [
    'skipped slots never land in *args, no parameter is named like another one\'s alias, keyword arguments only for '
    'families without no_kwargs overloads (the rules do not fix those corners)',
    'characterised, not specified: exclusivity stops the layer walk even when the kind filter empties the layer; '
    'literal constants are type-checked before the laziness comparison',
    'payloads never invoke their lazy arguments',
]
REQUIRED = {'families': 300, 'families.keyword-specificity': 30, 'calls': 1500, 'outcome.ran': 300, 'outcome.unknown': 20, 'outcome.no-match': 100,
            'outcome.ambiguous': 50, 'outcome.translation': 5, 'rule.most specific': 30, 'rule.laziness differs': 5,
            'feature.skip': 50, 'feature.keyword': 100, 'feature.constant': 50, 'feature.method': 100,
            'feature.exclusive': 30, 'feature.hidden': 100, 'feature.varargs': 50, 'feature.kwonly': 30,
            'reach.choose_overload': 1000, 'reach.map_args': 2000, 'reach.get_delegate': 500,
            'reach.collect_functions': 1000, 'reach._is_specialization_of': 50, 'probes.checked': 1000,
            'registered.kind-by-flags': 100, 'registered.same-callable-twice': 20,
            'error_flavour.checked': 500, 'error_flavour.null_receiver': 20}

NAMES = ['x', 'y', 'z', 'w']


def gen_overload(rng, tag, kind, no_kwargs, lazy_ok):
    n = rng.choice((0, 1, 1, 2, 2, 3))
    if kind in ('method', 'extension') and n == 0:
        n = 1
    params = []
    ndefault_from = rng.choice((n, n, max(n - 1, 0), max(n - 2, 0)))
    for i in range(n):
        t = rng.choice(['object', 'object', 'A', 'B', 'C', 'D', 'int', 'str', 'tuple', 'Seq', 'Num', 'float',
                        'anyof:str,int', 'anyof:A,tuple'] if rng.random() < 0.35 else ['object', 'object', 'A', 'B', 'C', 'D', 'int', 'str'])
        has_default = i >= ndefault_from
        nullable = rng.random() < 0.6
        default = None
        if has_default:
            if t == 'int' and rng.random() < 0.6:
                default = 5
            elif t == 'str' and rng.random() < 0.6:
                default = 'dflt'
            elif t == 'object' and rng.random() < 0.3:
                default = 9
            elif rng.random() < 0.12:
                nullable = False        # a declared default (null) that the parameter's own type does not accept: the
                #                         omitted argument fails the type filter exactly like an explicit null
            else:
                nullable = True
        lazy = lazy_ok and rng.random() < 0.07 and not (i == 0 and kind != 'function')
        params.append(fam.ParamSpec(NAMES[i], t, nullable, default, has_default, lazy))
    if rng.random() < 0.15:
        params.append(fam.ParamSpec('rest', rng.choice(['object', 'A', 'int']), True, kind='varargs'))
    if rng.random() < 0.12:
        d = rng.random() < 0.5
        params.append(fam.ParamSpec('ko', rng.choice(['object', 'int']), True, 5 if d else None, d, kind='kwonly'))
    if rng.random() < 0.08:
        params.append(fam.ParamSpec('kws', 'object', True, kind='kwargs'))
    # hidden parameters in any position among the positionals
    for _ in range(rng.choice((0, 0, 0, 1, 1, 2))):
        hidden = rng.choice(['engine', 'context'])
        if any(p.hidden == hidden for p in params):
            continue
        npos = len([p for p in params if p.kind == 'pos'])
        at = rng.randrange(npos + 1)
        hp = fam.ParamSpec('h_' + hidden, 'object', True, hidden=hidden)
        # a positional hidden parameter after a defaulted one needs a default in python syntax: give it one
        if at < npos and any(p.has_default for p in params[:at] if p.kind == 'pos'):
            hp.has_default, hp.default = True, None
        if at == npos and any(p.has_default for p in params[:at] if p.kind == 'pos'):
            hp.has_default, hp.default = True, None
        params.insert(at, hp)
    # python requires: no non-default positional after a default one
    seen_default = False
    for p in params:
        if p.kind != 'pos':
            continue
        if p.has_default:
            seen_default = True
        elif seen_default:
            p.has_default, p.default = True, None
            if not p.hidden:
                p.nullable = True
    spec = fam.OverloadSpec(tag, params, kind=kind, no_kwargs=no_kwargs)
    spec.decor_seed = rng.randrange(10 ** 6)
    return spec


def gen_family(rng):
    nlayers = rng.choice((1, 1, 2, 2, 3, 4))
    mixed_flags = rng.random() < 0.05
    all_no_kwargs = rng.random() < 0.1
    lazy_ok = rng.random() < 0.5
    layers = []
    exclusive = []
    t = 0
    for li in range(nlayers):
        layer = []
        for _ in range(rng.choice((0, 1, 1, 2, 2, 3))):
            kind = rng.choice(['function', 'function', 'function', 'method', 'extension', 'extension'])
            nk = all_no_kwargs or (mixed_flags and rng.random() < 0.5)
            o = gen_overload(rng, 'L%dt%d' % (li, t), kind, nk, lazy_ok)
            if rng.random() < 0.2:
                o.reg = 'flags'
            layer.append(o)
            t += 1
        if layer and rng.random() < 0.06:
            # the same callable registered a second time: two overloads, neither more specific than the other
            import copy
            o = copy.copy(rng.choice(layer))
            o.twin = True
            layer.append(o)
        layers.append(layer)
        exclusive.append(bool(layer) and rng.random() < 0.15)
    return layers, exclusive


def gen_kw_family(rng):
    """several overloads of one layer that all match a call made entirely by keyword: specificity must be compared
    parameter by parameter (by name), whatever order each overload declared its parameters in"""
    n = rng.choice((2, 2, 3))
    names = NAMES[:n]
    layer = []
    for t in range(rng.choice((2, 3, 3))):
        params = [fam.ParamSpec(nm, rng.choice(['object', 'A', 'B', 'C']), True) for nm in names]
        spec = fam.OverloadSpec('K%d' % t, params, kind='function')
        spec.decor_seed = rng.randrange(10 ** 6)
        layer.append(spec)
    kw = list(names)
    rng.shuffle(kw)
    npos = rng.choice((0, 0, 1))
    args = [rng.choice('bc') for _ in range(npos)]
    call = mr.CallSpec(args, {nm: rng.choice('bcc') for nm in kw if names.index(nm) >= npos})
    return [layer], [False], call


TYPE_PAIRS = [('tuple', 'Seq'), ('int', 'Num'), ('float', 'Num'), ('B', 'A'), ('C', 'object'), ('str', 'anyof:str,int'),
              ('anyof:str,int', 'object'), ('anyof:A,tuple', 'Seq'), ('int', 'anyof:str,int'), ('tuple', 'anyof:A,tuple'),
              ('anyof:str,int', 'anyof:A,tuple'), ('Seq', 'object'), ('Num', 'float')]


def gen_type_family(rng):
    """one- or two-layer families of one-/two-parameter overloads whose parameter types are related through
    abstract base classes or aggregations, nullable or not, called with null (as a literal and from data) and
    with values of each kind: the type filter, the null rule and the 'most specific' rule on their own"""
    t1, t2 = rng.choice(TYPE_PAIRS)
    if rng.random() < 0.5:
        t1, t2 = t2, t1
    n1, n2 = rng.random() < 0.5, rng.random() < 0.5
    shape = rng.choice(('same-layer', 'same-layer', 'two-layers', 'single'))
    second = rng.random() < 0.4
    def mk(tag, t, nullable):
        params = [fam.ParamSpec('x', t, nullable)]
        if second:
            params.append(fam.ParamSpec('y', rng.choice(['object', 'int']), True, None, True))
        return fam.OverloadSpec(tag, params, kind='function')
    o1, o2 = mk('T0', t1, n1), mk('T1', t2, n2)
    if shape == 'same-layer':
        layers, excl = [[o1, o2]], [False]
    elif shape == 'two-layers':
        layers, excl = [[o1], [o2]], [rng.random() < 0.2, False]
    else:
        layers, excl = [[o1]], [False]
    arg = rng.choice(['const:null', 'const:null', 'n', 'n', 'const:int', 'const:str', 'i', 's', 't', 'f', 'a', 'b'])
    if rng.random() < 0.3:
        call = mr.CallSpec([], {'x': arg})
    else:
        call = mr.CallSpec([arg])
    return layers, excl, call


def gen_limit_family(rng):
    """overloads with an Iterable()-typed parameter next to plainly typed ones, called with a collection longer
    than the engine's iterator limit: converting the argument for a candidate that loses (or does not match at all)
    must not decide the outcome - only the overload that runs converts its arguments"""
    tx = rng.choice(['tuple', 'Seq', 'object', 'Iter', 'anyof:A,tuple'])
    ty0, ty1 = rng.choice([('int', 'str'), ('int', 'object'), ('str', 'int'), ('int', 'int'), ('object', 'str')])
    def mk(tag, t, ty, d):
        params = [fam.ParamSpec('x', t, rng.random() < 0.3), fam.ParamSpec('y', ty, True, None, d)]
        return fam.OverloadSpec(tag, params, kind='function')
    o0 = mk('I0', 'Iter', ty0, rng.random() < 0.3)
    o1 = mk('I1', tx, ty1, rng.random() < 0.3)
    shape = rng.choice(('same-layer', 'iter-nearer', 'iter-farther', 'single'))
    if shape == 'same-layer':
        layers, excl = [[o0, o1] if rng.random() < 0.5 else [o1, o0]], [False]
    elif shape == 'iter-nearer':
        layers, excl = [[o0], [o1]], [False, False]
    elif shape == 'iter-farther':
        layers, excl = [[o1], [o0]], [False, False]
    else:
        layers, excl = [[o0]], [False]
    x = rng.choice(['T', 'T', 'T', 't', 'n', 's'])
    y = rng.choice(['i', 's', 'const:int', 'const:str', 'n'])
    r = rng.random()
    if r < 0.6:
        call = mr.CallSpec([x, y])
    elif r < 0.8:
        call = mr.CallSpec([x], {'y': y})
    else:
        call = mr.CallSpec([x])
    call.limit = True
    return layers, excl, call


def gen_call(rng, layers):
    overloads = [o for layer in layers for o in layer]
    any_no_kwargs = any(o.no_kwargs for o in overloads)
    method = rng.random() < 0.35
    nargs = rng.choice((0, 1, 1, 2, 2, 3, 4))
    if method and nargs == 0:
        nargs = 1
    args = []
    # a skip at index i must not land in *args of any overload
    min_pos_with_varargs = min([len([p for p in o.params if p.kind == 'pos' and not p.hidden])
                                for o in overloads if any(p.kind == 'varargs' for p in o.params)] or [99])
    for i in range(nargs):
        r = rng.random()
        if r < 0.12 and 0 < i < nargs - 1 and i < min_pos_with_varargs and not (method and i == 0):
            args.append(mr.SKIP)
        elif r < 0.24 and not (method and i == 0):
            args.append(rng.choice(['const:int', 'const:str', 'const:null']))
        else:
            args.append(rng.choice('aabbccdisntf'))
    if method and (args[0] == mr.SKIP or mr.is_const(args[0])):
        args[0] = rng.choice('abcd')
    kwargs = {}
    bad = False
    if not any_no_kwargs:
        # with a skipped slot, a keyword naming a positional parameter could push the empty slot into *args
        kwnames = ['ko', 'zz'] if mr.SKIP in args else NAMES + ['ko', 'zz']
        for _ in range(rng.choice((0, 0, 0, 1, 1, 2, 2, 3))):
            name = rng.choice(kwnames)
            kwargs[name] = rng.choice(list('abcdisntf') + ['const:int', 'const:null'])
        bad = rng.random() < 0.04
    return mr.CallSpec(args, kwargs, method, bad)


class Runner:
    def __init__(self, rec):
        self.rec = rec
        self.eng = yq.engine()
        self.eng_limit = yq.engine({'yaql.limitIterators': 8})
        self.root = yaql.create_context()
        self.ticker = hooks.Ticker()
        self.base = self.root.create_child_context()
        self.ticker.register(self.base)
        self.reach = hooks.Reach()
        self.reach.watch(yrunner.call, 'runner.call')
        self.reach.watch(yrunner.choose_overload, 'choose_overload')
        self.reach.watch(yrunner._is_specialization_of, '_is_specialization_of')
        self.reach.watch(yspecs.FunctionDefinition.map_args, 'map_args')
        self.reach.watch(yspecs.FunctionDefinition.get_delegate, 'get_delegate')
        self.reach.watch(yctx.ContextBase.collect_functions, 'collect_functions')
        self.reach.start()

    def close(self):
        self.reach.flush(self.rec)
        self.reach.stop()

    def build(self, layers, exclusive):
        parent = self.base
        for layer, excl in reversed(list(zip(layers, exclusive))):
            ctx = parent.create_child_context()
            built = {}
            for i, o in enumerate(layer):
                if o.twin:
                    fn = built[o.tag]
                    self.rec.count('registered.same-callable-twice')
                else:
                    fn = built[o.tag] = o.build()
                if o.reg == 'flags':
                    self.rec.count('registered.kind-by-flags')
                o.register(ctx, fn, exclusive=excl and i == 0)
            parent = ctx
        return parent

    def render(self, call):
        """-> text, vars, probe ids of eager-looking arguments (all value arguments)"""
        vars_ = {}
        parts = []
        probes = []
        k = 0

        def val(a, probe=True):
            nonlocal k
            if a == mr.SKIP:
                return ''
            if mr.is_const(a):
                return {'const:int': '5', 'const:str': "'lit'", 'const:null': 'null'}[a]
            k += 1
            name = 'a%d' % k
            vars_[name] = fam.VALUES[a][1]()
            probes.append(k)
            return 'tick(%d, $%s)' % (k, name)
        for a in call.args:
            parts.append((a, val(a)))
        kw = []
        for name, a in call.kwargs.items():
            kw.append('%s => %s' % (name, val(a)))
        if call.bad_keyword:
            vars_['bk'] = 'x'
            kw.append('$bk => 1')
        if call.method:
            recv = parts[0][1]
            text = '%s.f(%s)' % (recv, ', '.join([p[1] for p in parts[1:]] + kw))
        else:
            text = 'f(%s)' % ', '.join([p[1] for p in parts] + kw)
        return text, vars_, probes

    def check(self, layers, exclusive, call, label):
        rec = self.rec
        text, vars_, probes = self.render(call)
        want = mr.resolve(layers, exclusive, call)
        limited = getattr(call, 'limit', False)
        if limited and want['outcome'][0] == 'ran':
            winner = next(o for layer in layers for o in layer if o.tag == want['outcome'][1])
            for prm in winner.params:
                if prm.tname == 'Iter' and want['outcome'][2].get(prm.name) == ('arg', 'T'):
                    # the overload that runs converts its own arguments: the over-long collection is refused there
                    want = dict(want, outcome=('error', 'other:CollectionTooLargeException'), rule=want['rule'] + ' + iterator limit')
        top = self.build(layers, exclusive)
        ctx = top.create_child_context()
        for k, v in vars_.items():
            ctx[k] = v
        self.ticker.reset()
        try:
            st = (self.eng_limit if limited else self.eng)(text)
        except Exception as e:
            rec.inconc('call %r does not parse: %s' % (text, e))
            return
        flavour = None
        try:
            res = st.evaluate(context=ctx)
            got = ('ran', res[0], res[1]) if isinstance(res, (list, tuple)) and len(res) == 2 else ('value', res)
        except yexc.NoFunctionRegisteredException:
            got = ('error', 'unknown')
            flavour = 'function'
        except yexc.NoMethodRegisteredException:
            got = ('error', 'unknown')
            flavour = 'method'
        except (yexc.NoMatchingFunctionException, yexc.NoMatchingMethodException) as e:
            got = ('error', 'no-match')
            flavour = 'method' if isinstance(e, yexc.NoMatchingMethodException) else 'function'
        except (yexc.AmbiguousFunctionException, yexc.AmbiguousMethodException) as e:
            got = ('error', 'ambiguous')
            flavour = 'method' if isinstance(e, yexc.AmbiguousMethodException) else 'function'
        except yexc.MappingTranslationException:
            got = ('error', 'translation')
        except Exception as e:
            got = ('error', 'other:' + type(e).__name__)
        trace = self.ticker.reset()
        if flavour is not None:
            # "... function/method error as appropriate": a call with a receiver fails with the method flavour of the
            # error (whatever the receiver's value, null included), a call without one with the function flavour
            rec.count('error_flavour.checked')
            if call.method and call.args and call.args[0] in ('n', 'const:null'):
                rec.count('error_flavour.null_receiver')
            if flavour != ('method' if call.method else 'function'):
                rec.violation('resolution-error-of-the-wrong-call-kind:%s' % got[1],
                              '%s raised the %s flavour of the %r error' % (text, flavour, got[1]),
                              {'kind': 'family', 'layers': [[o.desc() for o in layer] for layer in layers], 'exclusive': exclusive,
                               'call': call.desc()})
        visible = [o for layer in layers for o in layer]
        rec.count('calls')
        rec.count('outcome.' + (want['outcome'][0] if want['outcome'][0] == 'ran' else want['outcome'][1]))
        rec.count('rule.' + want['rule'].split(' of ')[0])
        feats = set()
        if mr.SKIP in call.args:
            feats.add('skip')
        if call.kwargs:
            feats.add('keyword')
        if any(mr.is_const(a) for a in call.args):
            feats.add('constant')
        if call.method:
            feats.add('method')
        if any(exclusive):
            feats.add('exclusive')
        for o in visible:
            for p in o.params:
                if p.hidden:
                    feats.add('hidden')
                if p.kind == 'varargs':
                    feats.add('varargs')
                if p.kind == 'kwonly':
                    feats.add('kwonly')
        for f in feats:
            rec.count('feature.' + f)
        rec.case((label, repr([[o.desc() for o in layer] for layer in layers]), repr(exclusive), repr(call.desc())),
                 nontrivial=len(visible) >= 2 or bool(feats & {'skip', 'keyword', 'constant'}))
        rp = {'kind': 'family', 'layers': [[o.desc() for o in layer] for layer in layers], 'exclusive': exclusive,
              'call': call.desc()}
        fam_desc = [['%s:%s(%s)%s' % (o.tag, o.kind[:3], ', '.join(
            ('~' if p.lazy else '') + ('#' if p.hidden else '') + ('*' if p.kind == 'varargs' else '**' if p.kind == 'kwargs' else
                                                                 '/' if p.kind == 'kwonly' else '') +
            p.name + ':' + p.tname + ('' if p.nullable else '!') + ('=%r' % (p.default,) if p.has_default else '')
            for p in o.params), ' nk' if o.no_kwargs else '') for o in layer] for layer in layers]
        wo = want['outcome']
        ok = True
        if wo[0] == 'error':
            ok = got == wo
        else:
            ok = got[0] == 'ran' and got[1] == wo[1]
        if not ok:
            rec.violation('resolution-differs-from-rules:want=%s:got=%s' % (
                wo[0] if wo[0] == 'ran' else wo[1], got[0] if got[0] in ('ran', 'value') else got[1]),
                '%s against %s (exclusive %r): the rules give %r (%s), yaql gave %r' % (
                    text, fam_desc, exclusive, wo[:2], want['rule'], got[:2]), rp)
            return
        if wo[0] == 'ran':
            bad = self.compare_bound(wo[2], got[2], vars_, call)
            if bad:
                rec.violation('bound-arguments-differ', '%s against %s ran %s with %s' % (text, fam_desc, wo[1], bad), rp)
        # eager arguments evaluated exactly once (or not at all when resolution fails before evaluation)
        rec.count('probes.checked', len(probes))
        lazy_names = set(want.get('lazy', ()))
        for idx, pid in enumerate(probes):
            n = trace.count(pid)
            is_receiver = call.method and idx == 0
            if wo[0] == 'ran' or is_receiver:
                expect = (1,)
                if self.probe_is_lazy(pid, call, lazy_names) and not is_receiver:
                    expect = (0,)
            else:
                expect = (0, 1)     # a failing resolution may or may not have reached argument evaluation
            if n not in expect:
                rec.violation('argument-evaluation-count:%s' % ('more-than-once' if n > 1 else 'unexpected'),
                              '%s against %s: probe %d evaluated %d time(s), expected %r (rule: %s; trace %r)' % (
                                  text, fam_desc, pid, n, expect, want['rule'], trace), rp)
                break
        if trace != sorted(trace):
            rec.violation('argument-evaluation-order', '%s: probes evaluated in order %r' % (text, trace), rp)

    def probe_is_lazy(self, pid, call, lazy_names):
        """is the pid-th value argument bound to a lazy parameter?"""
        k = 0
        for i, a in enumerate(call.args):
            if a == mr.SKIP or mr.is_const(a):
                continue
            k += 1
            if k == pid:
                return str(i) in lazy_names
        for name, a in call.kwargs.items():
            if mr.is_const(a):
                continue
            k += 1
            if k == pid:
                return name in lazy_names
        return False

    def compare_bound(self, want, got, vars_, call):
        if not isinstance(got, dict):
            return 'payload returned %r' % (got,)
        return self._cmp(want, got)

    def _cmp(self, want, got):
        # 'arg' entries carry only the value key; several arguments may share a key, so compare by type/value
        for name, entry in want.items():
            if name not in got:
                return 'parameter %s missing in %r' % (name, got)
            g = got[name]
            if entry[0] == 'default':
                if callable(g) and entry[1] is not None:
                    continue        # a lazy parameter receives its non-null default wrapped in a callable
                if g != entry[1] or type(g) is not type(entry[1]):
                    return 'parameter %s = %r, expected the default %r' % (name, g, entry[1])
            elif entry[0] == 'arg':
                if not _is_value(g, entry[1]):
                    # lazy parameters receive a callable wrapper
                    if callable(g):
                        continue
                    return 'parameter %s = %r, expected the argument %s' % (name, g, entry[1])
            elif entry[0] == 'tuple':
                if not isinstance(g, (tuple, list)) or len(g) != len(entry[1]) or not all(
                        _is_value(x, e[1]) for x, e in zip(g, entry[1])):
                    return '*%s = %r, expected %r' % (name, g, entry[1])
            elif entry[0] == 'dict':
                if not isinstance(g, dict) or set(g) != set(entry[1]) or not all(
                        _is_value(g[k], e[1]) for k, e in entry[1].items()):
                    return '**%s = %r, expected %r' % (name, g, entry[1])
        return None


def _is_value(g, key):
    if mr.is_const(key):
        v = mr.const_value(key)
        return g == v and type(g) is type(v)
    if key == 'n':
        return g is None
    if key == 'i':
        return g == 7 and type(g) is int
    if key == 's':
        return g == 'txt'
    if key == 'T':
        return g == 'LONG'
    if key == 't':
        return list(g) == [1, 2] if isinstance(g, (list, tuple)) else False      # results are finalised: tuples come back as lists
    if key == 'f':
        return g == 2.5 and type(g) is float
    return type(g) is fam.VALUES[key][0]


def plan(tier, seed):
    thorough = tier == 'thorough'
    return [{'name': 'fam-%d' % p, 'kind': 'fam', 'families': 6500 if thorough else 260, 'calls': 10 if thorough else 6,
             'timeout': 3000} for p in range(16)]


def run_shard(spec, rec):
    rng = rng_for(spec['seed'], 'c05', spec['name'])
    r = Runner(rec)
    try:
        expression_typed(r, rec, rng, max(spec['families'] // 10, 20))
        for i in range(spec['families']):
            if i % 6 == 5:
                layers, exclusive, call = gen_kw_family(rng)
                rec.count('families')
                rec.count('families.keyword-specificity')
                r.check(layers, exclusive, call, '%s/%d/kw' % (spec['name'], i))
                continue
            if i % 6 == 4:
                layers, exclusive, call = gen_limit_family(rng)
                rec.count('families')
                rec.count('families.iterator-limit')
                r.check(layers, exclusive, call, '%s/%d/limit' % (spec['name'], i))
                continue
            if i % 6 == 2:
                layers, exclusive, call = gen_type_family(rng)
                rec.count('families')
                rec.count('families.type-filter')
                r.check(layers, exclusive, call, '%s/%d/type' % (spec['name'], i))
                continue
            layers, exclusive = gen_family(rng)
            if not any(layers):
                continue
            rec.count('families')
            for j in range(spec['calls']):
                call = gen_call(rng, layers)
                r.check(layers, exclusive, call, '%s/%d/%d' % (spec['name'], i, j))
            if i % 100 == 0:
                rec.sample({'layers_nearest_first': [[o.desc() for o in layer] for layer in layers][:2],
                            'exclusive': exclusive, 'call': call.desc(), 'text': r.render(call)[0]})
    finally:
        r.close()


EXPR_FORMS = ['g(1)', '1 + 2', '-$x', 'not $x', '[1, 2]', '{a => 1}', '$x', '$', 'abc', '5', "'s'", 'null', 'true', '$x[0]', '$x.y',
              'g(1).h()', '(1)', '$x + $y * 2', '1.5']


def expression_typed(runner, rec, rng, count):
    """parameters declared YaqlExpression(<node classes>): the argument's syntax tree is handed over unevaluated, and
    the type filter accepts it exactly when the class of its root node is one of the declared classes (subclasses of a
    declared class are other kinds of expression)"""
    from yaql.language import expressions as yexpr
    classes = {n: getattr(yexpr, n) for n in ('Function', 'BinaryOperator', 'UnaryOperator', 'ListExpression', 'MapExpression',
                                               'GetContextValue', 'Constant', 'KeywordConstant', 'IndexExpression', 'Expression')}
    eng = runner.eng
    for i in range(count):
        k = rng.choice((1, 2, 2, 3))
        decls = []
        for j in range(k):
            decls.append(tuple(sorted(rng.sample(sorted(set(classes) - {'Expression'}), rng.choice((1, 1, 2))))))
        layered = rng.random() < 0.4 and k > 1
        ctx = runner.base.create_child_context()
        layer_ctxs = []
        for j, decl in enumerate(decls):
            def payload(e, _tag='E%d' % j):
                return _tag
            payload = yspecs.parameter('e', yt.YaqlExpression(tuple(classes[c] for c in decl)))(payload)
            if layered and j > 0:
                ctx = ctx.create_child_context()
            ctx.register_function(payload, name='f')
            layer_ctxs.append(ctx)
        form = rng.choice(EXPR_FORMS)
        text = 'f(%s)' % form
        try:
            st = eng(text)
        except Exception as e:
            rec.inconc('expression-typed call %r does not parse: %s' % (text, e))
            continue
        node = yq.unwrap(st.expression).args[0]       # (a parenthesised argument is a Wrap node: another kind of expression)
        actual = type(node).__name__
        matches = [j for j, decl in enumerate(decls) if actual in decl]
        if layered:
            # nearest layer first: overload j lives in layer j (0 = farthest), the first layer with a match wins
            want = ('ran', 'E%d' % max(matches)) if matches else ('error', 'no-match')
        else:
            want = ('ran', 'E%d' % matches[0]) if len(matches) == 1 else (('error', 'ambiguous') if matches else ('error', 'no-match'))
        c = ctx.create_child_context()
        c['x'] = [1]
        c['y'] = 2
        try:
            got = ('ran', st.evaluate(context=c))
        except (yexc.NoMatchingFunctionException, yexc.NoMatchingMethodException):
            got = ('error', 'no-match')
        except (yexc.AmbiguousFunctionException, yexc.AmbiguousMethodException):
            got = ('error', 'ambiguous')
        except Exception as e:
            got = ('error', 'other:' + type(e).__name__)
        rec.count('calls')
        rec.count('families')
        rec.count('families.expression-typed')
        rec.case(('expr-typed', text, repr(decls), layered), nontrivial=True)
        if got != want:
            rec.violation('resolution-differs-from-rules:expression-typed:want=%s:got=%s' % (want[1] if want[0] == 'error' else 'ran', got[1] if got[0] == 'error' else 'ran'),
                          '%s (root node %s) against overloads declared %r (%s): the rules give %r, yaql gave %r' % (
                              text, actual, decls, 'one per layer' if layered else 'one layer', want, got),
                          {'kind': 'expr-typed', 'text': text, 'decls': [list(d) for d in decls], 'layered': layered})


def spec_from_desc(d):
    params = [fam.ParamSpec(p['name'], p['type'], p['nullable'], p.get('default'), 'default' in p, p.get('lazy', False),
                            p.get('hidden'), p['kind']) for p in d['params']]
    spec = fam.OverloadSpec(d['tag'], params, d['kind'], d['no_kwargs'])
    spec.decor_seed = d.get('decor_seed')
    spec.reg = d.get('reg', 'decor')
    spec.twin = d.get('twin', False)
    return spec


def replay(data, rec):
    r = Runner(rec)
    try:
        layers = [[spec_from_desc(d) for d in layer] for layer in data['layers']]
        c = data['call']
        call = mr.CallSpec(c['args'], c['kwargs'], c['method'], c['bad_keyword'])
        call.limit = c.get('limit', False)
        print('call: %s' % r.render(call)[0])
        print('model: %r' % (mr.resolve(layers, data['exclusive'], call),))
        r.check(layers, data['exclusive'], call, 'replay')
    finally:
        r.close()


def selftest():
    mr.selftest()
