"""C08 - iterator limit and memory quota bound every evaluation.

Monitors:
 * pull counters of instrumented endless sources placed in every parameter
   position of every catalogue overload (as value and as the result of a
   lambda), and of proxies wrapped around the library's own endless producers;
   a hard cap on the source stops a runaway consumer by a logical event;
 * shape walk of every returned value (no collection with more than N elements);
 * sizes of every argument received by every library payload (sys.monitoring
   PY_START hook on the payload code objects) and of every returned value
   against the quota; tracemalloc peak around refused repetitions.
"""
import collections.abc
import signal
import re
import sys
import gc
import tracemalloc

import yaql
from yaql.language import exceptions as yexc
from yaql.language import runner as yrunner
from yaql.language import utils as yutils

from vmon import catalogue as cat
from vmon import hooks
from vmon import yq
from vmon.core import rng_for

RULE = ('a case is (expression, placement of the instrumented source, N or Q); distinct by (expression text, source '
        'position, option values); non-trivial = the instrumented source or a producer proxy was pulled at least once, '
        'or (memory cases) at least one payload argument was measured')
ASSUMPTIONS = [
    'termination is judged by the hard cap of the instrumented source (a logical event); a case stopped by the '
    'per-case alarm or the shard watchdog is inconclusive',
    'sizes are sys.getsizeof, the measure the option is documented with; only values handed to payloads and returned '
    'by evaluate are judged, not transients inside one payload',
    'memory cases keep nominal sizes modest (<= 2e6 elements) except repetitions, whose refusal is judged by '
    'tracemalloc peak <= 64*Q + 2 MiB',
]
REQUIRED = {'src.cases': 300, 'src.pulled_cases': 100, 'reach.limit_iterable': 100, 'outcome.CollectionTooLargeException': 50,
            'shape.cases': 100, 'mem.cases': 100, 'mem.args_measured': 1000, 'outcome.MemoryQuotaExceededException': 20,
            'reach.limit_memory_usage': 1000, 'pr.*': 120, 'producer.proxied_calls': 20,
            'limit.legacy_cases': 10, 'limit.view_and_option_cases': 50, 'limit.yaqlized_method_cases': 5, 'limit.engine_copy_cases': 10, 'src.element_kind_cases': 100}

CASE_ALARM = 90
MEM_CAP = [30000]


class CaseTimeout(BaseException):
    pass


def _alarm(*a):
    raise CaseTimeout()


class Proxy:
    """counts pulls from an iterator produced by the library itself"""

    def __init__(self, it, mon, label):
        self.it = iter(it)
        self.pulls = 0
        self.mon = mon
        self.label = label
        self.trip = mon.current_n + 2
        self.trip_site = None

    def __iter__(self):
        return self

    def __next__(self):
        if self.pulls >= self.mon.hard_cap:
            raise hooks.PullBudgetBreached(self.label)
        self.pulls += 1
        if self.pulls == self.trip:
            self.trip_site = hooks.yaql_site(2)
        return next(self.it)


PRODUCERS = ('sequence', 'repeat', 'cycle', 'generate', 'generateMany', 'range')


class Mon:
    def __init__(self, rec, reach_payloads=False):
        self.rec = rec
        self.base = yq.engine()
        self.engines = {}
        root = yaql.create_context()
        self.overloads = cat.build(root)
        self.ctx = root.create_child_context()
        self.sources = []
        self.proxies = []
        self.hard_cap = 2000
        self.current_n = 10 ** 9
        self.quota = None
        self.arg_violation = None
        self.args_measured = 0
        mon = self

        def src():
            s = hooks.CountingSource(None, hard_cap=mon.hard_cap, name='src()')
            s.trip = mon.current_n + 2
            mon.sources.append(s)
            return s
        self.ctx.register_function(src, name='src')
        # wrap the library's own endless producers so that their consumption is observable
        for o in self.overloads:
            if o.name in PRODUCERS and o.syntax[0] == 'call':
                fd = o.fd.clone()
                orig = o.fd.payload

                def make(orig, label):
                    def wrapper(*a, **kw):
                        res = orig(*a, **kw)
                        mon.rec.count('producer.proxied_calls')
                        if isinstance(res, collections.abc.Iterator):
                            p = Proxy(res, mon, label)
                            mon.proxies.append(p)
                            return p
                        return res
                    return wrapper
                fd.payload = make(orig, o.ident)
                self.ctx.register_function(fd)
        self.reach = hooks.Reach()
        self.reach.watch(yutils.limit_iterable, 'limit_iterable')
        self.reach.watch(yutils.limit_memory_usage, 'limit_memory_usage')
        self.reach.watch(yutils.convert_output_data, 'convert_output_data')
        self.reach.watch(yrunner.call, 'runner.call')
        self.idents = {}
        for o in self.overloads:
            key = 'payload.' + o.code_owner.__module__.split('.')[-1] + '.' + o.code_owner.__name__
            self.idents[o.ident] = key
            self.reach.watch(o.code_owner, key, callback=self._payload_start if reach_payloads else None)
        self.reach.start()
        signal.signal(signal.SIGALRM, _alarm)

    def close(self):
        signal.alarm(0)
        for k in list(self.reach.counts):
            if k.startswith('payload.'):
                if self.reach.counts[k]:
                    self.rec.count('pr.' + k[len('payload.'):], self.reach.counts[k])
                del self.reach.counts[k]
        self.reach.flush(self.rec)
        self.reach.stop()

    def engine(self, **opts):
        key = tuple(sorted(opts.items()))
        if key not in self.engines:
            self.engines[key] = self.base.copy({'yaql.' + k: v for k, v in opts.items()})
        return self.engines[key]

    def _payload_start(self, code):
        q = self.quota
        if q is None:
            return
        f = sys._getframe(2)
        for name in code.co_varnames[:code.co_argcount + code.co_kwonlyargcount]:
            v = f.f_locals.get(name)
            self.args_measured += 1
            if v is None or isinstance(v, (int, float)) and not isinstance(v, bool) and abs(v) < 2 ** 60:
                continue
            if hasattr(v, 'options') and hasattr(v, 'parser'):   # the engine itself
                continue
            size = sys.getsizeof(v, 0)
            if size > q and self.arg_violation is None:
                self.arg_violation = (code.co_qualname, name, size, type(v).__name__)

    # ------------------------------------------------------------------------------
    def run(self, eng, text, vars_=None, data=yutils.NO_VALUE):
        """returns ('value', v) | ('exc', e) | ('breach', label) | ('timeout',)"""
        self.sources = []
        self.proxies = []
        ctx = self.ctx.create_child_context()
        if vars_:
            for k, a in vars_.items():
                if isinstance(a, hooks.CountingSource):
                    ctx[k] = a
                    self.sources.append(a)
                else:
                    ctx[k] = cat.materialize(a)
        signal.alarm(CASE_ALARM)
        try:
            try:
                st = eng(text)
                if data is not yutils.NO_VALUE:
                    return ('value', st.evaluate(data=data, context=ctx))
                return ('value', st.evaluate(context=ctx))
            finally:
                signal.alarm(0)
        except hooks.PullBudgetBreached as e:
            return ('breach', str(e), hooks.tb_site(e))
        except CaseTimeout:
            return ('timeout',)
        except MemoryError as e:
            return ('exc', e)
        except RecursionError as e:
            return ('exc', e)
        except Exception as e:
            return ('exc', e)

    # ---- iterator limit ------------------------------------------------------------
    def limit_case(self, text, vars_, n, where, data=yutils.NO_VALUE, family='src'):
        rec = self.rec
        self.hard_cap = max(400, 20 * n)
        self.current_n = n
        for a in (vars_ or {}).values():
            if isinstance(a, hooks.CountingSource):
                a.hard_cap = self.hard_cap
                a.trip = n + 2
        eng = self.engine(limitIterators=n)
        out = self.run(eng, text, vars_, data)
        pulled = [s for s in self.sources + self.proxies if s.pulls > 0]
        rec.count(family + '.cases')
        if pulled:
            rec.count(family + '.pulled_cases')
        rec.case((family, text, where, n), nontrivial=bool(pulled) or family == 'shape')
        replay = {'kind': 'limit', 'text': text, 'n': n, 'where': where, 'family': family}
        if out[0] == 'timeout':
            rec.inconc('case %r (%s, N=%d) stopped by the %ds per-case alarm' % (text, where, n, CASE_ALARM))
            return out
        if out[0] == 'breach':
            rec.count('outcome.hard-cap-breach')
            rec.violation('unbounded-consumption:by=%s' % out[2],
                          '%s with limitIterators=%d kept pulling from %s past the hard cap of %d pulls (consumer %s; '
                          'source placed at %s)' % (text, n, out[1], self.hard_cap, out[2], where), replay)
            return out
        if out[0] == 'exc':
            rec.count('outcome.' + type(out[1]).__name__)
        else:
            rec.count('outcome.value')
        for s in self.sources + self.proxies:
            if s.pulls > n + 1:
                rec.violation('lazy-source-overpulled:by=%s' % s.trip_site,
                              '%s with limitIterators=%d pulled %d items (> N+1) from %s (consumer %s; source placed at '
                              '%s); outcome %s' % (text, n, s.pulls, getattr(s, 'label', getattr(s, 'name', '?')),
                                                   s.trip_site, where, _short(out)), replay)
                break
        if out[0] == 'value':
            big = oversized(out[1], n)
            if big:
                rec.violation('oversized-collection-in-result:%s' % where,
                              '%s with limitIterators=%d returned a %s of %d elements at %s' % (
                                  text, n, big[0], big[1], big[2]), replay)
        return out

    # ---- memory quota ------------------------------------------------------------------
    def memory_case(self, text, q, vars_=None, repetition=False, extra_opts=None):
        rec = self.rec
        self.hard_cap = 10 ** 7
        opts = {'memoryQuota': q}
        opts.update(extra_opts or {})
        eng = self.engine(**opts)
        self.quota = q
        self.arg_violation = None
        before = self.args_measured
        if repetition:
            tracemalloc.start()
            tracemalloc.reset_peak()
            base = tracemalloc.get_traced_memory()[0]
        try:
            out = self.run(eng, text, vars_)
        finally:
            self.quota = None
            if repetition:
                peak = tracemalloc.get_traced_memory()[1] - base
                tracemalloc.stop()
        measured = self.args_measured - before
        rec.count('mem.cases')
        rec.count('mem.args_measured', measured)
        rec.case(('mem', text, q, tuple(sorted((extra_opts or {}).items()))), nontrivial=measured > 0)
        replay = {'kind': 'mem', 'text': text, 'q': q, 'repetition': repetition, 'extra': extra_opts or {}}
        if out[0] == 'timeout':
            rec.inconc('memory case %r (Q=%d) stopped by the per-case alarm' % (text, q))
            return out
        if out[0] == 'breach':
            rec.inconc('memory case %r (Q=%d) ran into the pull cap' % (text, q))
            return out
        if out[0] == 'exc':
            rec.count('outcome.' + type(out[1]).__name__)
            if isinstance(out[1], MemoryError):
                rec.violation('allocation-before-quota-check:%s' % hooks.tb_site(out[1]), '%s with memoryQuota=%d ran out of memory (RLIMIT_AS) '
                              'instead of raising MemoryQuotaExceededException' % (text, q), replay)
        else:
            rec.count('outcome.value')
            size = sys.getsizeof(out[1], 0)
            if size > q:
                rec.violation('oversized-value-returned', '%s with memoryQuota=%d returned a %s of %d bytes' % (
                    text, q, type(out[1]).__name__, size), replay)
            else:
                deep = deep_oversized(out[1], q)
                if deep:
                    rec.violation('oversized-value-nested-in-result', '%s with memoryQuota=%d returned a value holding a %s of %d '
                                  'bytes at %s' % (text, q, deep[0], deep[1], deep[2]), replay)
        if self.arg_violation is not None:
            fn, name, size, tname = self.arg_violation
            rec.violation('oversized-value-passed-to-function:%s' % fn,
                          '%s with memoryQuota=%d: payload %s received %s=%s of %d bytes' % (text, q, fn, name, tname, size),
                          replay)
        if repetition:
            rec.count('mem.repetitions')
            if peak > 64 * q + (2 << 20):
                rec.violation('repetition-allocated-before-refusal', '%s with memoryQuota=%d: tracemalloc peak %d bytes' % (
                    text, q, peak), replay)
            if repetition != 'peak' and (out[0] != 'exc' or not isinstance(out[1], yexc.MemoryQuotaExceededException)):
                rec.violation('repetition-not-refused:%s' % (
                    hooks.tb_site(out[1]) if out[0] == 'exc' else 'value'), '%s with memoryQuota=%d gave %s' % (text, q, _short(out)), replay)
        return out


def deep_oversized(v, q, path='$', depth=0):
    """a container or string nested in a result whose own size exceeds the quota"""
    if depth > 6:
        return None
    if isinstance(v, dict):
        items = [('[%r]' % (k,), x) for k, x in list(v.items())[:2000]]
    elif isinstance(v, (list, tuple, set, frozenset)):
        items = [('[%d]' % i, x) for i, x in enumerate(list(v)[:2000])]
    else:
        return None
    for key, x in items:
        if isinstance(x, (str, bytes, list, tuple, dict, set, frozenset)):
            # sizes as they were in flight: a list was a tuple, a dict a frozen dict (whose own size is its wrapper's)
            size = 0 if isinstance(x, dict) else sys.getsizeof(tuple(x) if isinstance(x, list) else x, 0)
            if size > q:
                return (type(x).__name__, size, path + key)
            r = deep_oversized(x, q, path + key, depth + 1)
            if r:
                return r
    return None


def _short(out):
    if out[0] == 'exc':
        return '%s: %s' % (type(out[1]).__name__, str(out[1])[:80])
    if out[0] == 'value':
        return 'value %s' % repr(out[1])[:80]
    return repr(out)


def oversized(v, n, path='$'):
    stack = [(v, path)]
    while stack:
        x, p = stack.pop()
        if isinstance(x, (str, bytes)):
            continue
        if isinstance(x, dict):
            if len(x) > n:
                return ('dict', len(x), p)
            for k, y in x.items():
                stack.append((k, p + '.key'))
                stack.append((y, p + '.value'))
        elif isinstance(x, (list, tuple, set, frozenset)):
            if len(x) > n:
                return (type(x).__name__, len(x), p)
            for y in x:
                stack.append((y, p + '[]'))
        elif isinstance(x, collections.abc.Iterator):
            return ('unconsumed iterator ' + type(x).__name__, -1, p)
    return None


# ---------------------------------------------------------------------------------------
# workloads

ELEM_KINDS = (('chars', lambda k: chr(97 + k % 26)), ('pairs', lambda k: (k, k)), ('nulls', lambda k: None),
              ('dicts', lambda k: {'a': k}))

SOURCE_TCLASSES_SKIP = ('lambda', 'mappingrule', 'rulevalue', 'keyword', 'strconst', 'expr', 'hidden')


def position_cases(mon, lambda_mode):
    """(overload, index of the position receiving the source, call text, vars)"""
    for o in mon.overloads:
        if o.syntax[0] in ('var', 'internal'):
            continue
        base = cat.basic_args(o)
        if base is None:
            continue
        allp = list(o.params)
        if o.varargs is not None:
            allp = allp + [o.varargs] * (len(base) - len(o.params))
        for i, p in enumerate(allp):
            if i >= len(base):
                break
            if lambda_mode:
                if p.tclass != 'lambda':
                    continue
                args = list(base)
                args[i] = cat.text('src()')
            else:
                if p.tclass in SOURCE_TCLASSES_SKIP:
                    continue
                args = list(base)
                args[i] = cat.var(hooks.CountingSource(None, name='$src'), label='SRC')
            r = cat.render(o, args)
            if r is None:
                continue
            yield o, i, p, r[0], r[1]


INTERNAL = [
    'len(sequence())', 'sequence().len()', 'sequence().count()', 'sequence().toList()', 'sequence().last()',
    'sequence().sum()', 'repeat(1).orderBy($)', 'cycle([1]).distinct()', '[1].cycle().distinct().len()',
    'generateMany(1, sequence())', 'generateMany(1, src())', 'generate(0, true, $ + 1).len()', 'sequence().select($).where(false)',
    'sequence().where(false).first(0)', 'sequence().skipWhile(true)', '[1].cycle().indexOf(5)',
    'sequence().zip(sequence())', 'sequence().join(sequence(), true, 1)', 'sequence() + sequence()',
    'sequence().memorize().len()', 'sequence().toSet()', 'sequence().toDict($)', 'sequence().groupBy($)',
    'sequence().reverse()', 'sequence().max()', 'sequence().min()', 'sequence().aggregate($1 + $2)', 'sequence().any($ < 0)',
    'sequence().all($ >= 0)', 'sequence().contains(-1)', '-1 in sequence()', 'sequence().flatten()',
    'list(sequence())', 'list(sequence(), sequence())', 'set(sequence())', 'dict(sequence().select([$, $]))',
    'sequence().slice(2)', 'sequence().splitAt(3)', 'sequence().insertMany(0, sequence())',
    "sequence().select(str($)).join(',')", "', '.join(sequence().select(str($)))", 'sequence().accumulate($1 + $2)',
    'sequence().enumerate()', 'sequence().append(1)', 'sequence().concat([1])', 'sequence().selectMany([$, $])',
    'sequence().selectMany(sequence())', '[1].selectMany(sequence())', '[1, 2].select(sequence())',
    'sequence().take(1000000)', 'sequence().skip(1000000)', 'sequence().lastIndexOf(1)', 'sequence().lastIndexWhere($ < 0)',
    'sequence().indexWhere($ < 0)', 'sequence().single()', 'sequence().defaultIfEmpty([1])', '[].defaultIfEmpty(sequence())',
    'sequence().sliceWhere($ mod 2 = 0)', 'sequence().splitWhere($ mod 2 = 0)', 'sequence().unpack(a, b) -> $a',
    'sequence().delete(0)', 'sequence().replace(0, 1)', 'sequence().replaceMany(0, sequence())', 'sequence().insert(0, 1)',
    '{a => 1}.deleteAll(sequence())', 'sequence().limit(1000000).len()', 'sequence().memorize()', 'sequence().mergeWith({})',
    'repeat([1, 2]).flatten()', 'repeat(repeat(1))', '[sequence()]', '{a => sequence()}', '[[sequence()]]',
    'sequence().select(sequence())', 'range(1000000)', 'range(1000000).len()', 'range(0, 1000000, 1).toList()',
    'repeat(1).takeWhile(true)', 'let(s => sequence()) -> $s.len()', 'sequence().orderByDescending($)',
    'generateMany(0, [$ + 1]).len()', 'generate(0, true, $ + 1, $, true).len()', 'repeat(1, 1000000).toList()',
    'sequence().where($ mod 2 = 0).select($ * 2).skip(3).len()', 'src().len()', 'len(src())', 'src().memorize().len()',
    'sequence().len() + sequence().len()', 'zip(sequence(), [1])', 'zipLongest(sequence(), [1])',
    'sequence().toSet().len()', 'sequence().select($).toList().len()', 'isIterable(sequence())', 'str(sequence()) != null',
    'bool(sequence())', 'sequence() = 1', 'sequence().first()', 'sequence().take(3)', 'sequence().any()',
]


def plan(tier, seed):
    thorough = tier == 'thorough'
    ns = [0, 1, 2, 5, 10, 100] if thorough else [0, 2, 10]      # 0: every non-empty collection is over the limit
    shards = []
    parts = 8
    for n in ns:
        for p in range(parts):
            shards.append({'name': 'pos-N%d-%d' % (n, p), 'kind': 'positions', 'n': n, 'part': p, 'parts': parts,
                           'timeout': 1500})
    for n in ns:
        shards.append({'name': 'internal-N%d' % n, 'kind': 'internal', 'n': n, 'timeout': 1500})
    for n in ns[:3] if thorough else ns[:2]:
        shards.append({'name': 'shapes-N%d' % n, 'kind': 'shapes', 'n': n, 'count': 3000 if thorough else 700})
    qs = [2000, 20000, 200000]
    for q in qs:
        parts_q = 8 if thorough else 3
        for p in range(parts_q):
            shards.append({'name': 'mem-Q%d-%d' % (q, p), 'kind': 'memory', 'q': q, 'part': p, 'parts': parts_q,
                           'count': 700, 'timeout': 2400})
    if thorough:
        for p in range(8):
            shards.append({'name': 'compose-%d' % p, 'kind': 'compose', 'count': 2500, 'timeout': 2400})
    else:
        shards.append({'name': 'compose-0', 'kind': 'compose', 'count': 400, 'timeout': 1500})
    return shards


def run_shard(spec, rec):
    mon = Mon(rec, reach_payloads=spec['kind'] == 'memory')
    try:
        globals()['_' + spec['kind']](spec, mon, rec)
    finally:
        mon.close()


def _positions(spec, mon, rec):
    n = spec['n']
    idx = -1
    for lambda_mode in (False, True):
        for o, i, p, text, vars_ in position_cases(mon, lambda_mode):
            idx += 1
            if idx % spec['parts'] != spec['part']:
                continue
            where = '%s:%s%s' % (o.ident, p.name, ':lambda-result' if lambda_mode else '')
            # fresh source objects per evaluation
            v2 = {k: (hooks.CountingSource(None, name='$src') if isinstance(a.value, hooks.CountingSource) else a)
                  for k, a in vars_.items()}
            mon.limit_case(text, v2, n, where)
            if not lambda_mode:
                # sources of other element kinds (a validator or converter that scans "while the elements look right"
                # stops at the first number, not at the first one-character string or pair)
                for kind, elem in ELEM_KINDS:
                    v4 = {k: (hooks.CountingSource(None, name='$src', elem=elem) if isinstance(a.value, hooks.CountingSource) else a)
                          for k, a in vars_.items()}
                    mon.limit_case(text, v4, n, where + ':elements=' + kind)
                    rec.count('src.element_kind_cases')
                # the same position fed by a re-iterable host object (an __iter__-only collection without a length)
                v3 = {k: (hooks.ReiterableSource(None, name='$src') if isinstance(a.value, hooks.CountingSource) else a)
                      for k, a in vars_.items()}
                mon.limit_case(text, v3, n, where + ':reiterable')
            if idx % 150 == 0:
                rec.sample({'kind': 'source-position', 'text': text, 'N': n, 'where': where})


SIZED_OVER_LIMIT = ['$big.select($)', '$big.where(true).toList()', '$big.toList()', '[0].select($big)', '$big', '{a => $big}',
                    '$big.take(1)', '$big.first()', '[$big].len()', 'let(b => $big) -> $b.any()', '$big.orderBy($)',
                    '$big.toSet().len()', "$big.select(str($)).join(',')", '$big.zip([1])', '$big + [1]']


def _worlds(spec, mon, rec):
    """the limit in other worlds: first-class function calls (delegates), nested evaluation through YaqlInterface
    from a host function on a context shared by engines with different limits, and the class of the refusal"""
    n = spec['n']
    # (a) a sized collection over the limit handed to a function or returned: CollectionTooLargeException, no other class
    big = tuple(range(n + 3))
    eng = mon.engine(limitIterators=n)
    for text in SIZED_OVER_LIMIT:
        out = mon.run(eng, text, {'big': cat.var(big)})
        rec.count('src.cases')
        rec.count('limit.sized_over_limit_cases')
        rec.case(('sized-over-limit', text, n), nontrivial=True)
        rp = {'kind': 'sized', 'text': text, 'n': n}
        if out[0] == 'value':
            bigc = oversized(out[1], n)
            if bigc:
                rec.violation('oversized-collection-in-result:sized-argument', '%s with limitIterators=%d and a %d-element $big returned '
                              'a %s of %d elements at %s' % (text, n, len(big), bigc[0], bigc[1], bigc[2]), rp)
        elif out[0] == 'exc' and not isinstance(out[1], yexc.CollectionTooLargeException):
            rec.violation('limit-refusal-has-wrong-class:%s' % type(out[1]).__name__,
                          '%s with limitIterators=%d and a %d-element $big raised %s: %s instead of CollectionTooLargeException' % (
                              text, n, len(big), type(out[1]).__name__, str(out[1])[:80]), rp)
    # (a1) dict views and nested tuples as results, under every combination of the output-conversion options
    bigd = {'k%d' % i: i for i in range(n + 3)}
    long_t = tuple(range(n + 2))
    for opts in ({}, {'yaql.convertSetsToLists': True}, {'yaql.convertTuplesToLists': False},
                 {'yaql.convertSetsToLists': True, 'yaql.convertTuplesToLists': False}):
        oeng = yaql.YaqlFactory().create(options=dict({'yaql.limitIterators': n}, **opts))
        for text in ('$bigd.items()', '[$bigd.items()]', 'dict(x => $bigd.items())', '$bigd.keys()', '$bigd.values()', '[$bigd.keys()]',
                     '($bigd + dict(extra => 1)).items()', '$bigd.items().toList()', '{a => $bigd.values()}',
                     'set($t)', '[set($t)]', 'dict(a => $t).items()', 'dict(a => $t).values()', '{$t => 1}.keys()', '[$t].toSet()',
                     'set([$t])', '[[$t]]', '{a => [$t]}', 'set($t, 1)', 'let(f => set($t)) -> $f', 'def(g, set($t)) -> g()'):
            ctx = mon.ctx.create_child_context()
            ctx['bigd'] = yutils.convert_input_data(bigd)
            ctx['t'] = long_t
            try:
                out = ('value', oeng(text).evaluate(context=ctx))
            except Exception as ex:
                out = ('exc', ex)
            rec.count('src.cases')
            rec.count('limit.view_and_option_cases')
            rec.case(('sized-view', text, n, tuple(sorted(opts.items()))), nontrivial=True)
            if out[0] == 'value':
                bigc = oversized(out[1], n)
                if bigc:
                    rec.violation('oversized-collection-in-result:view-or-conversion-option', '%s with limitIterators=%d and options %r returned '
                                  'a %s of %d elements at %s' % (text, n, opts, bigc[0], bigc[1], bigc[2]),
                                  {'kind': 'sized', 'text': text, 'n': n})
    # (a2) the options an engine was created with are its own: the host may reuse or change the dict afterwards
    opts = {'yaql.limitIterators': n, 'yaql.memoryQuota': 3000}
    own = yaql.YaqlFactory().create(options=opts)
    copy_of = own.copy({})
    opts['yaql.limitIterators'] = 10 ** 6
    opts['yaql.memoryQuota'] = 10 ** 9
    opts.clear()
    for ename, e in (('created-with-dict', own), ('copy', copy_of)):
        for text in ('range(%d).toList()' % (n + 5), "'x' * 5000", 'range(%d).select($).len()' % (n + 5)):
            try:
                out = ('value', e(text).evaluate(context=mon.ctx.create_child_context()))
            except Exception as ex:
                out = ('exc', ex)
            rec.count('src.cases')
            rec.count('limit.options_dict_cases')
            rec.case(('options-dict', ename, text, n), nontrivial=True)
            if out[0] == 'value':
                rec.violation('limit-follows-the-hosts-options-dict', '%s on an engine created with limitIterators=%d / memoryQuota=3000 returned '
                              '%s after the host changed the dict it had passed (%s)' % (text, n, _short(out), ename),
                              {'kind': 'options-dict', 'text': text, 'n': n})
    # (b) calling a function value: the arguments stay lazy and limited
    deng = yq.engine({'yaql.limitIterators': n}, allow_delegates=True)
    dctx = yaql.create_context(delegates=True)
    for text in ('let(f => lambda($.take(2).toList())) -> $f($src)', 'lambda($.first())($src)', 'let(f => lambda($1.any())) -> $f($src)',
                 'let(f => lambda($k.take(1).toList())) -> $f(k => $src)', 'let(f => lambda($.len())) -> $f($src)',
                 'let(f => lambda($)) -> $f($src).take(1)', 'lambda([$1.first(), $2.first()])($src, $src2)'):
        srcs = {'src': hooks.CountingSource(None, name='$src'), 'src2': hooks.CountingSource(None, name='$src2')}
        ctx = dctx.create_child_context()
        for k, v in srcs.items():
            v.hard_cap = max(400, 20 * n)
            ctx[k] = v
        try:
            out = ('value', deng(text).evaluate(context=ctx))
        except hooks.PullBudgetBreached as e:
            out = ('breach', str(e))
        except Exception as e:
            out = ('exc', e)
        rec.count('src.cases')
        rec.count('limit.delegate_call_cases')
        rec.case(('delegate-call', text, n), nontrivial=True)
        worst = max(v.pulls for v in srcs.values())
        if out[0] == 'breach' or worst > n + 1:
            rec.violation('lazy-source-overpulled:by=function-value-call', '%s with limitIterators=%d pulled %d items (> N+1) from a lazy '
                          'argument of a function value (outcome %s)' % (text, n, worst, _short(out) if out[0] != 'breach' else 'hard cap'),
                          {'kind': 'delegate', 'text': text, 'n': n})
    # (c) nested evaluation from a host function: the limits of the engine that is evaluating apply, whatever engine
    #     evaluated the same nested text before on the shared context
    shared = yaql.create_context().create_child_context()

    def nested_count(yaql_interface, x):
        return yaql_interface('$1.select($ + 1).len()', x)

    def nested_text(yaql_interface, k):
        return yaql_interface("'x' * $1", k).upper()
    shared.register_function(nested_count, name='nestedCount')
    shared.register_function(nested_text, name='nestedText')
    lax = yq.engine()
    strict = yq.engine({'yaql.limitIterators': n, 'yaql.memoryQuota': 2000})
    for text, data in (('nestedCount($)', list(range(n + 30))), ('nestedText(50000).len()', None)):
        first = None
        try:
            first = lax(text).evaluate(data=data, context=shared.create_child_context())
        except Exception as e:
            first = e
        try:
            out = ('value', strict(text).evaluate(data=data, context=shared.create_child_context()))
        except Exception as e:
            out = ('exc', e)
        rec.count('src.cases')
        rec.count('limit.nested_interface_cases')
        rec.case(('nested-interface', text, n), nontrivial=True)
        if out[0] == 'value':
            rec.violation('limit-not-applied-in-nested-evaluation', '%s on the engine with limitIterators=%d / memoryQuota=2000 returned %r '
                          '(the unlimited engine evaluated it first on the same context and gave %r)' % (text, n, out[1], first),
                          {'kind': 'nested', 'text': text, 'n': n})

    # (d) a yaqlized host object's method handed lazy arguments: they reach the method as they are (still lazy, still
    #     counted), whatever the method then consumes itself
    from yaql import yaqlization

    class Box:
        def head(self, seq, k=2):
            out = []
            for x in seq:
                out.append(x)
                if len(out) >= k:
                    break
            return out

        def ignore(self, seq):
            return 7

        def nested_first(self, seqs):
            return [next(iter(x)) for x in seqs]
    yaqlization.yaqlize(Box)
    yeng = yq.engine({'yaql.limitIterators': n})
    yctx_ = yaql.create_context()
    for text in ('$box.head($src, 3)', '$box.ignore($src)', '$box.head($src.select($ + 1), 2)', '$box.nested_first([$src])',
                 '$box.head(seq => $src)', '$box.ignore(generate(0, true, $ + 1))', '$box.head(generate(0, true, $ + 1), 3)',
                 '$box.head($src.where($ mod 2 = 0))'):
        src = hooks.CountingSource(None, name='$src')
        src.hard_cap = max(400, 20 * n)
        ctx = yctx_.create_child_context()
        ctx['src'] = src
        ctx['box'] = Box()
        out = _timed_eval(yeng, text, ctx)
        rec.count('src.cases')
        rec.count('limit.yaqlized_method_cases')
        rec.case(('yaqlized-method', text, n), nontrivial=True)
        if out[0] in ('breach', 'timeout') or src.pulls > max(n + 1, 4):
            rec.violation('lazy-source-overpulled:by=yaqlized-method-call', '%s with limitIterators=%d pulled %d items from a lazy argument '
                          'of a yaqlized method whose own code reads at most 3 (outcome %s)' % (text, n, src.pulls, _short(out) if out[0] == 'value' or out[0] == 'exc' else out[0]),
                          {'kind': 'yaqlized-method', 'text': text, 'n': n})
    # (e) limits given to a copy of an engine, or per call, apply whatever the parent engine did before
    used = yq.engine()
    used('range(30).toList()').evaluate(context=mon.ctx.create_child_context())
    used("'x' * 5000").evaluate(context=mon.ctx.create_child_context())
    limits = {'yaql.limitIterators': n, 'yaql.memoryQuota': 2000}
    fresh_parent = yq.engine()
    for ename, make in (('copy-of-used-engine', lambda t: used.copy(limits)(t)), ('per-call-options-on-used-engine', lambda t: used(t, limits)),
                        ('copy-of-fresh-engine', lambda t: fresh_parent.copy(limits)(t)),
                        ('copy-of-limited-used-engine', lambda t: strict.copy({'yaql.limitIterators': -1, 'yaql.memoryQuota': -1}).copy(limits)(t))):
        for text in ('range(%d).toList()' % (n + 5), "'x' * 5000", 'range(%d).select($).len()' % (n + 5)):
            try:
                out = ('value', make(text).evaluate(context=mon.ctx.create_child_context()))
            except Exception as ex:
                out = ('exc', ex)
            rec.count('src.cases')
            rec.count('limit.engine_copy_cases')
            rec.case(('engine-copy', ename, text, n), nontrivial=True)
            if out[0] == 'value':
                rec.violation('limit-of-engine-copy-not-applied:%s' % ename, '%s on %s with limitIterators=%d / memoryQuota=2000 returned %s' % (
                    text, ename, n, _short(out)), {'kind': 'engine-copy', 'text': text, 'n': n})
    #     ... and the other way round: a copy that lifts the limits is not bound by what the parent cached
    for text in ('range(%d).toList().len()' % (n + 5),):
        try:
            out = ('value', strict.copy({'yaql.limitIterators': -1, 'yaql.memoryQuota': -1})(text).evaluate(context=mon.ctx.create_child_context()))
        except Exception as ex:
            out = ('exc', ex)
        rec.count('limit.engine_copy_cases')
        if out != ('value', n + 5):
            rec.violation('limit-of-engine-copy-not-applied:lifted', '%s on a copy of a limited, used engine that lifts the limits gave %s' % (
                text, _short(out)), {'kind': 'engine-copy', 'text': text, 'n': n})
    # (f) the legacy flavour (its own range(), list(), tuples, filtering indexer) under the same limits: whatever the
    #     outcome, nothing is unrolled or repeated past the quota before it is refused
    from yaql import legacy as ylegacy
    q = 100000
    leng = ylegacy.YaqlFactory().create(options={'yaql.limitIterators': max(n, 1000), 'yaql.memoryQuota': q})
    lctx = ylegacy.create_context()
    big = 1000000
    for text in ('0.range(%d) * 2' % big, '2 * 0.range(%d)' % big, 'list(1, 2, 3) * %d' % big, '%d * list(1, 2, 3)' % big,
                 '0.range(%d)' % big, '0.range(%d).select($)' % big, '0.range(%d).where(true).list()' % big, "'ab' * %d" % big,
                 '0.range(%d).list()' % big, '0.range(%d) + 0.range(%d)' % (big, big), '0.range(%d)[$ > 5]' % big,
                 '0.range(%d).orderBy($)' % big, '0.range(%d).join(0.range(%d), true, $)' % (big, big), 'list(0.range(%d))' % big,
                 '0.range(%d).distinct()' % big, '0.range(%d).reverse()' % big, '0.range(%d).toSet()' % big, 'dict(a => 0.range(%d))' % big):
        try:
            st = leng(text)
        except Exception:
            rec.count('limit.legacy_texts_not_in_grammar')
            continue
        gc.collect()
        tracemalloc.start()
        tracemalloc.reset_peak()
        base = tracemalloc.get_traced_memory()[0]
        try:
            out = _timed_statement(st, lctx.create_child_context(), 60)
        finally:
            peak = tracemalloc.get_traced_memory()[1] - base
            tracemalloc.stop()
        rec.count('src.cases')
        rec.count('limit.legacy_cases')
        rec.case(('legacy-limit', text, n), nontrivial=True)
        if out[0] == 'timeout':
            rec.inconc('legacy case %r stopped by the per-case alarm' % text)
        elif peak > 64 * q + (2 << 20):
            rec.violation('legacy-evaluation-allocated-past-the-quota', '%s on a legacy engine with limitIterators=%d / memoryQuota=%d: '
                          'tracemalloc peak %d bytes (outcome %s)' % (text, max(n, 1000), q, peak, _short(out)),
                          {'kind': 'legacy-limit', 'text': text, 'n': n})
        elif out[0] == 'value':
            bigc = oversized(out[1], max(n, 1000))
            if bigc:
                rec.violation('oversized-collection-in-result:legacy', '%s on a legacy engine with limitIterators=%d returned a %s of %d '
                              'elements' % (text, max(n, 1000), bigc[0], bigc[1]), {'kind': 'legacy-limit', 'text': text, 'n': n})


def _timed_statement(st, ctx, seconds):
    import signal

    def on_alarm(*a):
        raise TimeoutError()
    old = signal.signal(signal.SIGALRM, on_alarm)
    signal.alarm(seconds)
    try:
        return ('value', st.evaluate(context=ctx))
    except TimeoutError:
        return ('timeout',)
    except Exception as e:
        return ('exc', e)
    finally:
        signal.alarm(0)
        signal.signal(signal.SIGALRM, old)


def _timed_eval(eng, text, ctx, seconds=20):
    import signal

    def on_alarm(*a):
        raise TimeoutError()
    old = signal.signal(signal.SIGALRM, on_alarm)
    signal.alarm(seconds)
    try:
        return ('value', eng(text).evaluate(context=ctx))
    except hooks.PullBudgetBreached as e:
        return ('breach', str(e))
    except TimeoutError:
        return ('timeout',)
    except Exception as e:
        return ('exc', e)
    finally:
        signal.alarm(0)
        signal.signal(signal.SIGALRM, old)


def _internal(spec, mon, rec):
    _worlds(spec, mon, rec)
    for text in INTERNAL:
        mon.limit_case(text, None, spec['n'], 'expr:' + text, family='src')
    rec.sample({'kind': 'internal-producer', 'text': INTERNAL[9], 'N': spec['n']})


def gen_shape(rng, n, depth):
    """host value with containers of sizes around n; returns (value factory, max container size)"""
    kind = rng.choice(('list', 'tuple', 'dict', 'set', 'gen', 'leaf') if depth > 0 else ('leaf',))
    if kind == 'leaf':
        return (lambda: 1), 0
    size = rng.choice((0, 1, n - 1, n, n, n + 1, n + 1, n + 2, 2 * n + 1))
    size = max(size, 0)
    if kind in ('set',):
        return (lambda: set(range(size))), size
    children = [gen_shape(rng, n, depth - 1) if i == 0 and rng.random() < 0.6 else ((lambda i=i: i), 0) for i in range(size)]
    mx = max([size] + [c[1] for c in children])
    if kind == 'list':
        return (lambda: [c[0]() for c in children]), mx
    if kind == 'tuple':
        return (lambda: tuple(c[0]() for c in children)), mx
    if kind == 'dict':
        return (lambda: {('k%d' % i): c[0]() for i, c in enumerate(children)}), mx
    return (lambda: (c[0]() for c in children)), mx


SHAPE_EXPRS = ['$', '[$, 1]', '{a => $}', '$d.x', 'list($)', '[[$]]', '{a => {b => [$]}}']


def _shapes(spec, mon, rec):
    rng = rng_for(spec['seed'], 'c08', spec['name'])
    n = spec['n']
    for i in range(spec['count']):
        f, mx = gen_shape(rng, n, rng.choice((1, 2, 3)))
        text = rng.choice(SHAPE_EXPRS)
        if text == '$d.x':
            out = mon.limit_case(text, {'d': cat.var(cat.Fresh(lambda: yutils.convert_input_data({'x': f()}), 'doc'))},
                                 n, 'shape', family='shape')
        else:
            out = mon.limit_case(text, None, n, 'shape', data=f(), family='shape')
        if mx > n:
            rec.count('shape.above_bound')
            if out[0] == 'value':
                pass    # already reported by the shape walk if a big container survived
            elif not isinstance(out[1], yexc.CollectionTooLargeException) if out[0] == 'exc' else False:
                rec.count('shape.other_exception')
        else:
            rec.count('shape.within_bound')
            if out[0] == 'exc' and isinstance(out[1], yexc.CollectionTooLargeException):
                rec.count('shape.refused_within_bound')
        if i % 300 == 0:
            rec.sample({'kind': 'shape', 'expr': text, 'N': n, 'max_container': mx, 'outcome': _short(out)})


def mem_exprs(q, rng):
    big = 10 ** 9
    e = []

    def C(x, cap=30000):
        return min(x, cap, MEM_CAP[0])
    for k in (max(q // 2, 1), q, 2 * q, 10 * q):
        half, quarter, k8, k16, k32 = k // 2 + 1, k // 4 + 1, k // 8 + 1, k // 16 + 1, k // 32 + 1
        templates = [
            ("'a' * %d", k), ("%d * 'ab'", k), ('[0] * %d', k8), ('%d * [1, 2]', k8),
            ("('a' * %d) + ('b' * %d)", half, half), ("concat('a' * %d, 'b' * %d)", half, half),
            ("'x'.replace('x', 'y' * %d)", half), ("('x' * %d).replace('x', 'yyyy')", quarter),
            ("range(%d).select('ab').join('')", C(half)), ("range(%d).select(str($)).join(',')", C(quarter)),
            ('range(%d).toList()', C(k8)), ('range(%d).toList().len()', C(k8)), ('range(%d).toSet().len()', C(k32)),
            ('range(%d).toDict($, $).len()', C(k32)), ('range(%d).groupBy($ mod 3).len()', C(k8)),
            ('range(%d).distinct().len()', C(k32)), ('range(%d).memorize().len()', C(k8)),
            ('range(%d).orderBy(-$).len()', C(k8)), ('range(%d).reverse().len()', C(k8)),
            ('range(%d).aggregate($1 + [$2], []).len()', C(k8, 3000)),
            ('range(%d).aggregate($1.set(str($2), $2), {}).len()', C(k32, 1500)),
            ("range(%d).aggregate($1 + 'ab', '').len()", C(half, 20000)),
            ('range(%d).accumulate($1 + [$2], []).last().len()', C(k8, 2000)),
            ("{}.set(a, 'x' * %d)", k), ("['x' * %d].len()", k), ("str('y' * %d).len()", k),
            ("('a' * %d).toUpper().len()", k), ("('a,' * %d).split(',').len()", k16),
            ("('a' * %d).toCharArray().len()", k8), ("('ab' * %d).replace(regex('a'), 'cccc').len()", quarter),
            ('generateMany(0, [$ + 1, $ + 2]).take(%d).len()', C(k8, 20000)),
            ('list(range(%d), range(%d)).len()', C(k16), C(k16)), ('(range(%d) + range(%d)).len()', C(k16), C(k16)),
            ('range(%d).toList() * 4', C(k32)), ('range(%d).zip(range(%d)).toList().len()', C(k8), C(k8)),
            ('range(%d).splitAt(3)', C(k8)), ('range(%d).slice(%d).len()', C(quarter), C(k8)),
            ('range(%d).insert(0, 1).len()', C(k8)), ('range(%d).toList().insert(0, 1).len()', C(k8)),
            ('dict(range(%d).select([$, $])).len()', C(k32)),
            ("range(%d).select([$, 'v']).toDict($[0], $[1]).keys().len()", C(k32)),
            ('set(range(%d)).len()', C(k32)), ('range(%d).toSet().union(range(%d).toSet()).len()', C(k32 // 2 + 1), C(k32)),
        ]
        # integers are values too: arbitrary-precision results must respect the quota
        templates += [('pow(2, %d)', 8 * k), ('shiftBitsLeft(1, %d)', 8 * k), ('pow(2, %d) + 1', 8 * k), ('-pow(2, %d)', 8 * k),
                      ('str(pow(2, %d)).len()', 8 * k), ('[pow(2, %d)].len()', 8 * k), ('{a => shiftBitsLeft(1, %d)}.len()', 8 * k),
                      ('range(%d).aggregate($1 * $1 + 1, 3).sign()', min(k.bit_length() + 6, 26)),
                      ('pow(2, %d) * pow(2, %d)', 4 * k, 4 * k), ('bitwiseOr(shiftBitsLeft(1, %d), 1)', 8 * k),
                      ('abs(-pow(2, %d))', 8 * k), ('max(pow(2, %d), 1)', 8 * k), ('pow(2, %d) > 1', 8 * k),
                      ('int(pow(2.0, 1000) * pow(2.0, %d))', min(k, 20))]
        for t in templates:
            e.append((t[0] % tuple(t[1:]), False))
        # the whole expression is one long literal (strings in every quoting style, padded, and a long number)
        e += [("'%s'" % ('x' * k), False), ('"%s"' % ('y' * k), False), ('  \n `%s` \n ' % ('z' * k), False), ('%s' % ('7' * min(k, 4000)), False),
              ("('%s')" % ('x' * k), False), ("['%s']" % ('x' * k), False)]
    # values whose in-flight form is small but whose finalised form is big (frozen dicts, tuples at the boundary)
    n0 = max((q - 40) // 8, 1)
    for d in (-3, -1, 0, 1, 3, 40):
        e.append(('range(%d).toList()' % (n0 + d), False))
        e.append(('range(%d).select($)' % (n0 + d), False))
        e.append(('[range(%d).toList()]' % (n0 + d), False))
    for n in (q // 100 + 1, q // 30 + 1, C(q // 8 + 1)):
        e += [('range(%d).toDict($, $)' % n, False), ('dict(range(%d).select([$, $]))' % n, False),
              ('range(%d).toSet()' % n, False), ('range(%d).groupBy($ mod 3)' % n, False),
              ('{a => range(%d).toDict($, $)}' % n, False), ("range(%d).select(str($)).join(',')" % n, False),
              ('range(%d).aggregate($1.set($2, $2), {})' % min(n, 1500), False)]
    e += [("'a' * %d" % big, True), ("%d * 'a'" % big, True), ('[0] * %d' % big, True), ('%d * [0, 1]' % big, True),
          ("'abc' * %d" % (big * 1000), True), ('[[1], [2]] * %d' % big, True), ('[] * %d' % big, False),
          ("'' * %d" % big, False)]
    # counted repetition through the repeat() function: lazily produced, so nothing of the nominal size is ever
    # allocated whatever the consumer does (judged by the allocation peak only)
    rn = 10 ** 8
    e += [('1.repeat(%d)' % rn, 'peak'), ('1.repeat(%d).take(2)' % rn, 'peak'), ("'ab'.repeat(%d).first()" % rn, 'peak'),
          ('repeat(null, %d).len()' % rn, 'peak'), ('[1, 2].repeat(%d).select($).take(1)' % rn, 'peak'),
          ('let(r => 1.repeat(%d)) -> 7' % rn, 'peak'), ('1.repeat(%d).any()' % rn, 'peak')]
    return e


BIGVAR_EXPRS = ['$big', '$big.len()', '[1, 2].select($big).len()', '[1, 2].where($big).len()', '$big and true', 'true and $big',
                'switch($big => 1)', 'coalesce(null, $big).len()', '[1].select($big).first().len()', 'let(b => $big) -> 1',
                '[$big].len()', '{a => $big}.len()', '$big = $big', 'def(f, $big) -> f().len()', '[1, 2].any($big)',
                "'a'.join([$big]).len()", '[1, 2].toDict($, $big).len()', '$big?.len()', '[3].aggregate($big, 0).len()']


def _bigvars(mon, rec, q):
    """a value larger than the quota that sits in the context (bound by the host) is refused wherever an
    expression reads it - as an eager argument, as the value of a lazy argument, as an operand or as the result"""
    for big in ('x' * (q * 3), tuple(range(q // 4 + 10))):      # (a frozen dict's own size is that of its wrapper)
        for text in BIGVAR_EXPRS:
            if not isinstance(big, str) and ('join' in text):
                continue
            out = mon.memory_case(text, q, vars_={'big': cat.var(yutils.convert_input_data(big))})
            rec.count('mem.bigvar_cases')
            if out[0] == 'value' or (out[0] == 'exc' and not isinstance(out[1], yexc.MemoryQuotaExceededException)):
                rec.violation('oversized-variable-read-unchecked:%s' % re.sub(r'[^a-zA-Z]+', '-', text)[:30].strip('-'),
                              '%s with memoryQuota=%d and $big = a %s of %d bytes gave %s' % (
                                  text, q, type(big).__name__, sys.getsizeof(big), _short(out)),
                              {'kind': 'bigvar', 'text': text, 'q': q, 'big': type(big).__name__})


NESTED_BIG_EXPRS = ['$', '$.doc', '[$.doc]', '$.doc.big', '$.doc.values()', '{k => $.doc}', '$.rows.select($)', '$.rows.first()',
                    'let(d => $.doc) -> $d', '$.doc.big.select($).toList().len()', 'range({n}).groupBy(0)', 'range({n}).groupBy(0).first()',
                    '[1].select(range({n}).toList())', 'let(x => 1) -> [range({n}).toList()]', 'range({n}).toList().toDict(k, $)',
                    '[[range({n}).toList()]]']


def _nested_big(mon, rec, q):
    """a collection over the quota that sits inside the host document or is built inside a lambda: it is refused
    wherever it travels, also when it only appears nested in the value that is returned"""
    n = q // 4 + 50
    doc = {'doc': {'big': list(range(n)), 'small': 1}, 'rows': [list(range(n))]}
    for text in NESTED_BIG_EXPRS:
        text = text.replace('{n}', str(n))
        self_q = q
        mon.hard_cap = 10 ** 7
        eng = mon.engine(memoryQuota=self_q, limitIterators=10 ** 6)
        mon.quota = None
        out = mon.run(eng, text, None, doc)
        rec.count('mem.cases')
        rec.count('mem.nested_big_cases')
        rec.case(('mem-nested', text, q), nontrivial=True)
        rp = {'kind': 'nested-big', 'text': text, 'q': q}
        if out[0] == 'value':
            deep = deep_oversized([out[1]], q)
            if deep or sys.getsizeof(out[1], 0) > q:
                rec.violation('oversized-value-nested-in-result', '%s with memoryQuota=%d on a document holding a %d-element list '
                              'returned %s' % (text, q, n, 'a value holding a %s of %d bytes at %s' % deep if deep else 'an over-quota value'), rp)
        elif out[0] == 'exc' and not isinstance(out[1], yexc.MemoryQuotaExceededException):
            rec.violation('limit-refusal-has-wrong-class:%s' % type(out[1]).__name__,
                          '%s with memoryQuota=%d raised %s: %s instead of MemoryQuotaExceededException' % (
                              text, q, type(out[1]).__name__, str(out[1])[:80]), rp)


def _memory(spec, mon, rec):
    rng = rng_for(spec['seed'], 'c08', spec['name'])
    q = spec['q']
    if spec['part'] == 0:
        _bigvars(mon, rec, q)
        _nested_big(mon, rec, q)
    MEM_CAP[0] = 12000 if spec['tier'] == 'thorough' else 6000
    exprs = mem_exprs(q, rng)
    rng.shuffle(exprs)
    exprs = [x for x in exprs if x[1]] + [x for x in exprs if not x[1]]      # repetition cases survive the truncation
    exprs = exprs[spec['part']::spec['parts']][:spec['count']]
    for i, (text, rep) in enumerate(exprs):
        extra = {'limitIterators': 10 ** 6} if i % 3 == 0 else None
        if rep == 'peak':
            extra = {'limitIterators': 10 ** 4}
        mon.memory_case(text, q, repetition=rep, extra_opts=extra)
        if i % 40 == 0:
            rec.sample({'kind': 'memory', 'text': text, 'Q': q})


STAGES = ['.select($)', '.where($ >= 0)', '.select([$, $])', '.skip(1)', '.takeWhile(true)', '.append(1)', '.concat([1])',
          '.distinct()', '.enumerate()', '.memorize()', '.selectMany([$])', '.accumulate($2)', '.skipWhile(false)',
          '.insert(0, 0)', '.delete(0)', '.replace(0, 1)', '.zip(sequence())', '.flatten()', '.select(src())']
SINKS = ['', '.len()', '.toList()', '.last()', '.sum()', '.toSet()', '.reverse()', '.orderBy($)', '.max()', '.count()',
         '.toDict($)', '.groupBy($)', '.join(sequence(), true, 1)', '.lastIndexOf(1)', '.toList().len()', '.aggregate($1)',
         '.all(true)', '.slice(3)', '.splitAt(2)', '.unpack(a) -> $a']
HEADS = ['$src', 'sequence()', 'src()', 'repeat(1)', '[1].cycle()', 'generate(0, true, $ + 1)', 'generateMany(0, [$ + 1])',
         'range(1000000)', 'list($src)', '[$src].selectMany($)', '$src.select(src())']


def _compose(spec, mon, rec):
    rng = rng_for(spec['seed'], 'c08', spec['name'])
    for i in range(spec['count']):
        n = rng.choice((1, 2, 3, 7, 20))
        text = rng.choice(HEADS) + ''.join(rng.choice(STAGES) for _ in range(rng.choice((0, 1, 1, 2, 3)))) + rng.choice(SINKS)
        cls = hooks.ReiterableSource if i % 3 == 2 else hooks.CountingSource
        vars_ = {'src': cls(None, name='$src')}
        mon.limit_case(text, vars_, n, 'expr:composed' + (':reiterable' if i % 3 == 2 else ''), family='src')
        if i % 200 == 0:
            rec.sample({'kind': 'composition', 'text': text, 'N': n})


def replay(data, rec):
    mon = Mon(rec, reach_payloads=data['kind'] == 'mem')
    try:
        if data['kind'] == 'mem':
            out = mon.memory_case(data['text'], data['q'], repetition=data.get('repetition', False),
                                  extra_opts=data.get('extra') or None)
        else:
            text = data['text']
            vars_ = {}
            import re as _re
            for name in set(_re.findall(r'\$(v\d+|src)\b', text)):
                vars_[name] = hooks.CountingSource(None, name='$' + name)
            if data.get('family') == 'shape':
                print('shape cases are replayed from their seed; re-run the check')
                return
            # non-source variables of a catalogue position case are rebuilt from the catalogue
            if data['where'].count(':') >= 1 and not data['where'].startswith('expr:'):
                for lambda_mode in (False, True):
                    for o, i, p, t, v in position_cases(mon, lambda_mode):
                        w = '%s:%s%s' % (o.ident, p.name, ':lambda-result' if lambda_mode else '')
                        if w == data['where'] and t == text:
                            vars_ = {k: (hooks.CountingSource(None, name='$src') if isinstance(a.value, hooks.CountingSource) else a)
                                     for k, a in v.items()}
            out = mon.limit_case(text, vars_, data['n'], data['where'])
            print('pulls: %r' % [(getattr(s, 'label', getattr(s, 'name', '?')), s.pulls) for s in mon.sources + mon.proxies])
        print('outcome: %s' % _short(out))
    finally:
        mon.close()
