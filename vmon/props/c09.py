"""C09 - evaluation has no side effects on host data, context or statement.

Monitors: deep + identity-keyed snapshot of the host data before/after,
identity-disjointness of result containers from host containers, mutate-the-
result-and-recompare, fingerprint of every context of the host chain plus a
class-level write log on Context mutators, a __setattr__ log on pre-existing
expression nodes / function definitions / parameter definitions, and
re-evaluation of the same statement with equal data.
"""
import copy
import re

import yaql
from yaql.language import contexts as yctx
from yaql.language import expressions as yexpr
from yaql.language import specs as yspecs
from yaql.language import utils as yutils

from vmon import catalogue as cat
from vmon import hooks
from vmon import yq
from vmon.core import rng_for

RULE = ('a case is (statement, mutable host document, yaql.convertInputData mode) or one step of an evaluation history '
        'on a shared parent context; distinct by (text, document shape, mode); non-trivial = the document contains at '
        'least one mutable container reachable by the expression and the evaluation reached a library payload')
ASSUMPTIONS = [
    'output conversion stays on (with it off `$` trivially returns the host object)',
    'host documents contain no iterators (their consumption is not mutation of host data)',
    'nondeterministic functions (random, now, localtz) are excluded from the re-evaluation comparison',
]
REQUIRED = {'cases': 500, 'cases.mutable_reached': 200, 'ctx.fingerprints_compared': 500, 'setattr.armed_evaluations': 500,
            'history.steps': 100, 'pr.*': 150, 'mode.convert_off': 200, 'mode.convert_on': 200,
            'result.containers_mutated': 200}

NONDET = ('random', 'now', 'localtz')


# ---- snapshots --------------------------------------------------------------------------

def freeze(v, ids=None):
    """deep structural value with type tags; ids (optional dict) gets id(container) -> frozen form"""
    if isinstance(v, list):
        f = ('list', tuple(freeze(x, ids) for x in v))
    elif isinstance(v, tuple):
        f = ('tuple', tuple(freeze(x, ids) for x in v))
    elif isinstance(v, dict):
        f = ('dict', tuple((freeze(k, ids), freeze(x, ids)) for k, x in v.items()))
    elif isinstance(v, (set, frozenset)):
        f = (type(v).__name__, tuple(sorted((freeze(x, ids) for x in v), key=repr)))
    elif isinstance(v, yutils.FrozenDict):
        f = ('FrozenDict', tuple((freeze(k, ids), freeze(x, ids)) for k, x in v.items()))
    elif isinstance(v, float):
        f = ('float', repr(v))
    else:
        if isinstance(v, (int, str, bool, type(None))):
            f = (type(v).__name__, v)
        else:
            r = repr(v)
            f = (type(v).__name__, re.sub(r' at 0x[0-9a-f]+', '', r))
    if ids is not None and isinstance(v, (list, dict, set)):
        ids[id(v)] = (v, f)
    return f


def mutable_ids(v, out=None):
    out = {} if out is None else out
    if isinstance(v, (list, dict, set)):
        if id(v) in out:
            return out
        out[id(v)] = v
    if isinstance(v, dict):
        for k, x in v.items():
            mutable_ids(k, out)
            mutable_ids(x, out)
    elif isinstance(v, (list, tuple, set, frozenset)):
        for x in v:
            mutable_ids(x, out)
    return out


SENTINEL = '<<vmon-sentinel>>'


def mutate_result(v, rec, depth=0):
    """mutates every mutable container reachable from the result"""
    if depth > 20:
        return
    if isinstance(v, list):
        for x in v:
            mutate_result(x, rec, depth + 1)
        v.append(SENTINEL)
        rec.count('result.containers_mutated')
    elif isinstance(v, dict):
        for x in list(v.values()):
            mutate_result(x, rec, depth + 1)
        v[SENTINEL] = SENTINEL
        rec.count('result.containers_mutated')
    elif isinstance(v, set):
        v.add(SENTINEL)
        rec.count('result.containers_mutated')
    elif isinstance(v, tuple):
        for x in v:
            mutate_result(x, rec, depth + 1)


def aliases(result, host_ids, path='$', depth=0):
    if depth > 30:
        return None
    if isinstance(result, (list, dict, set)) and id(result) in host_ids and host_ids[id(result)] is result:
        return path
    if isinstance(result, dict):
        for k, x in result.items():
            r = aliases(x, host_ids, path + '.' + str(k)[:10], depth + 1)
            if r:
                return r
    elif isinstance(result, (list, tuple, set, frozenset)):
        for i, x in enumerate(result):
            r = aliases(x, host_ids, path + '[%d]' % i, depth + 1)
            if r:
                return r
    return None


def ctx_fingerprint(ctx):
    """per layer: variables (name -> frozen value + identity), function sets by identity, exclusive names"""
    out = []
    while ctx is not None:
        data = getattr(ctx, '_data', None)
        if data is None:
            out.append(('non-plain', type(ctx).__name__))
        else:
            out.append((
                tuple(sorted((k, id(v), repr(freeze(v))[:200]) for k, v in data.items())),
                tuple(sorted((n, tuple(sorted(id(fd) for fd in fds))) for n, fds in ctx._functions.items())),
                tuple(sorted(ctx._exclusive_funcs)),
            ))
        ctx = ctx.parent
    return out


def diff_fingerprint(a, b, skip_dollar_in_first):
    if len(a) != len(b):
        return 'chain length %d -> %d' % (len(a), len(b))
    for i, (la, lb) in enumerate(zip(a, b)):
        if la == lb:
            continue
        if i == 0 and skip_dollar_in_first and la[0] != 'non-plain':
            va = tuple(x for x in la[0] if x[0] != '$1')
            vb = tuple(x for x in lb[0] if x[0] != '$1')
            if va == vb and la[1:] == lb[1:]:
                continue
        kinds = []
        if la[0] != lb[0]:
            kinds.append('variables %r -> %r' % ([x[0] for x in la[0]], [x[0] for x in lb[0]]))
        if la[1] != lb[1]:
            kinds.append('functions changed')
        if la[2] != lb[2]:
            kinds.append('exclusive names changed')
        return 'layer %d: %s' % (i, '; '.join(kinds))
    return None


# ---- monitor -----------------------------------------------------------------------------

class Mon:
    def __init__(self, rec):
        self.rec = rec
        self.eng_on = yq.engine({'yaql.limitIterators': 2000, 'yaql.memoryQuota': 5000000})
        self.eng_off = self.eng_on.copy({'yaql.convertInputData': False})
        self.root = yaql.create_context()
        self.overloads = cat.build(self.root)
        # the host's own prepared context: a child with a few variables and a function
        self.host = self.root.create_child_context()
        self.host['hostvar'] = [1, 2, {'k': 'v'}]
        self.host['n'] = 7

        def host_func(x):
            return x
        self.host.register_function(host_func, name='hostFunc')

        # host functions that use their own call scope as scratch space (variables, a helper function):
        # whatever they store belongs to the call and must not outlive it
        def scratch(yaql_interface, v):
            yaql_interface['scratch'] = v
            return yaql_interface('$scratch')

        def scratch_ctx(context, v):
            context['scratchCtx'] = v
            context.register_function(lambda: v, name='scratchFn')
            return context['scratchCtx']

        def scratch_dollar(yaql_interface, v):
            yaql_interface['$'] = v
            yaql_interface['n'] = v
            return yaql_interface('$')
        self.host.register_function(scratch, name='scratch')
        self.host.register_function(scratch_ctx, name='scratchCtx')
        self.host.register_function(scratch_dollar, name='scratchDollar')
        self.armed = False
        self.ctx_writes = []
        self.attr_writes = []
        self.host_ctx_ids = {}
        self.protected = {}
        self.patches = hooks.Patches()
        self._install()
        self.reach = hooks.Reach()
        for o in self.overloads:
            self.reach.watch(o.code_owner, 'payload.' + o.code_owner.__module__.split('.')[-1] + '.' + o.code_owner.__name__)
        self.reach.start()
        self._protect_fds()

    def _install(self):
        mon = self

        def wrap(cls, name):
            orig = cls.__dict__[name]

            def patched(self_, *a, **kw):
                if mon.armed and id(self_) in mon.host_ctx_ids:
                    mon.ctx_writes.append((name, mon.host_ctx_ids[id(self_)], repr(a[:1])[:60]))
                return orig(self_, *a, **kw)
            mon.patches.set(cls, name, patched)
        for name in ('__setitem__', '__delitem__', 'register_function', 'delete_function'):
            wrap(yctx.Context, name)

        def make_setattr(kind):
            def _setattr(self_, name, value):
                if mon.armed and id(self_) in mon.protected:
                    mon.attr_writes.append((kind, type(self_).__name__, name))
                object.__setattr__(self_, name, value)
            return _setattr
        self.patches.set(yexpr.Expression, '__setattr__', make_setattr('expression'))
        for cls, kind in ((yspecs.FunctionDefinition, 'function-definition'),
                          (yspecs.ParameterDefinition, 'parameter-definition')):
            orig = cls.__setattr__

            def _sa(self_, name, value, orig=orig, kind=kind):
                if mon.armed and id(self_) in mon.protected:
                    mon.attr_writes.append((kind, type(self_).__name__, name))
                orig(self_, name, value)
            self.patches.set(cls, '__setattr__', _sa)

    def _protect_fds(self):
        c = self.host
        while c is not None:
            for fds in getattr(c, '_functions', {}).values():
                for fd in fds:
                    self.protected[id(fd)] = fd
                    for p in fd.parameters.values():
                        self.protected[id(p)] = p
            c = c.parent

    def protect_statement(self, st):
        stack = [st]
        while stack:
            n = stack.pop()
            if id(n) in self.protected:
                continue
            self.protected[id(n)] = n
            for attr in ('args', ):
                for a in getattr(n, attr, ()) or ():
                    if isinstance(a, yexpr.Expression):
                        stack.append(a)
            for attr in ('expr', 'expression', 'source', 'destination', 'path'):
                a = getattr(n, attr, None)
                if isinstance(a, yexpr.Expression):
                    stack.append(a)

    def close(self):
        for k in list(self.reach.counts):
            if self.reach.counts[k]:
                self.rec.count('pr.' + k[len('payload.'):], self.reach.counts[k])
            del self.reach.counts[k]
        self.reach.stop()
        self.patches.restore()

    def payload_calls(self):
        return sum(self.reach.counts.values())

    # ---- one evaluation under all monitors -----------------------------------------------------
    def evaluate(self, st, make_doc, mode_off, label, ctx=None, expect_dollar_write=True, replay=None, nondet=False):
        rec = self.rec
        doc = make_doc()
        ids = {}
        before = freeze(doc, ids)
        host_ids = mutable_ids(doc)
        child = ctx if ctx is not None else self.host.create_child_context()
        chain = []
        c = child
        role = 0
        self.host_ctx_ids = {}
        while c is not None:
            self.host_ctx_ids[id(c)] = 'supplied' if role == 0 else 'ancestor-%d' % role
            c = c.parent
            role += 1
        fp_before = ctx_fingerprint(child)
        self.ctx_writes = []
        self.attr_writes = []
        calls0 = self.payload_calls()
        self.armed = True
        try:
            try:
                out = ('value', st.evaluate(data=doc, context=child))
            except Exception as e:
                out = ('exc', type(e).__name__, str(e)[:100])
        finally:
            self.armed = False
        reached = self.payload_calls() > calls0
        rec.count('cases')
        rec.count('setattr.armed_evaluations')
        rec.count('mode.convert_off' if mode_off else 'mode.convert_on')
        if host_ids and reached:
            rec.count('cases.mutable_reached')
        rec.case((label, repr(before)[:300], mode_off), nontrivial=bool(host_ids) and reached)
        rp = dict(replay or {}, mode_off=mode_off)

        def bad(mech, what):
            rec.violation(mech, '%s [convertInputData=%s] %s' % (label, not mode_off, what), rp)
        # (1) host data unchanged, deep and per container identity
        after = freeze(doc)
        if after != before:
            bad('host-data-mutated:%s' % hooks_site(label), 'input data changed from %r to %r' % (before, after))
        else:
            for i, (obj, f) in ids.items():
                if freeze(obj) != f:
                    bad('host-data-mutated:%s' % hooks_site(label), 'a host container changed: %r -> %r' % (f, freeze(obj)))
                    break
        # (2) context chain
        fp_after = ctx_fingerprint(child)
        rec.count('ctx.fingerprints_compared')
        d = diff_fingerprint(fp_before, fp_after, skip_dollar_in_first=True)
        if d:
            bad('host-context-changed:%s' % hooks_site(label), 'context chain differs after evaluation: %s' % d)
        unexpected = [w for w in self.ctx_writes if not (w[0] == '__setitem__' and w[1] == 'supplied' and w[2].startswith("('$'"))]
        if unexpected:
            bad('host-context-written:%s' % hooks_site(label), 'writes to host contexts during evaluation: %r' % unexpected[:3])
        if expect_dollar_write and len([w for w in self.ctx_writes if w[0] == '__setitem__' and w[1] == 'supplied']) != 1:
            bad('host-context-written:dollar-count', 'evaluate wrote %r into the supplied context' % (self.ctx_writes[:4],))
        # (3) statement / definitions never written
        if self.attr_writes:
            bad('shared-object-written:%s' % self.attr_writes[0][0],
                'attribute writes on pre-existing objects during evaluation: %r' % (self.attr_writes[:3],))
        # (4) result does not alias host containers; mutating it leaves the data alone
        if out[0] == 'value':
            where = aliases(out[1], host_ids)
            if where:
                bad('result-aliases-host-data:%s' % hooks_site(label), 'result%s is a host container' % where[1:])
            res_copy = None
            try:
                res_copy = copy.deepcopy(out[1])
            except Exception:
                pass
            mutate_result(out[1], rec)
            if freeze(doc) != before:
                bad('result-aliases-host-data:%s' % hooks_site(label), 'mutating the result changed the host data')
            # (5) re-evaluation with equal data gives an equal result
            if not nondet and res_copy is not None:
                doc2 = make_doc()
                try:
                    out2 = ('value', st.evaluate(data=doc2, context=self.host.create_child_context()))
                except Exception as e:
                    out2 = ('exc', type(e).__name__, str(e)[:100])
                if out2[0] != 'value' or freeze(out2[1]) != freeze(res_copy):
                    bad('re-evaluation-differs:%s' % hooks_site(label),
                        'second evaluation with equal data gave %r, first %r' % (out2, res_copy))
        return out


def hooks_site(label):
    """mechanism key component: the function under test (label starts with its ident) or 'expr'"""
    m = re.match(r'([^\s|]+@[\w.\[\]]+)', label)
    return m.group(1) if m else 'expr'


# ---- workloads --------------------------------------------------------------------------------

def shared_list():
    inner = [1, 2]
    d = {'k': inner}
    return [3, inner, d, [inner, d], 1, 'a']


MUTABLE_DOCS = {
    'iterable': [lambda: [3, 1, 2], lambda: [[2, 'b'], [1, 'a']], shared_list, lambda: [[1, 2], [3]], lambda: []],
    'sequence': [lambda: [3, 1, 2], lambda: [[2, 'b'], [1, 'a']], shared_list],
    'mapping': [lambda: {'a': 1, 'b': [1, 2], 'c': {'d': 2}}, lambda: {}, lambda: {'a': {'a': [1]}}],
    'set': [lambda: {1, 2, 3}, lambda: set()],
    'any': [lambda: [1, [2]], lambda: {'a': [1]}, lambda: {1, 2}],
    'iterator': [],
}


def catalogue_cases(mon):
    for o in mon.overloads:
        if o.syntax[0] in ('var', 'internal') or o.name in NONDET:
            continue
        base = cat.basic_args(o)
        if base is None:
            continue
        allp = list(o.params) + ([o.varargs] * (len(base) - len(o.params)) if o.varargs else [])
        for i, p in enumerate(allp[:len(base)]):
            docs = MUTABLE_DOCS.get(p.tclass)
            if not docs:
                continue
            for di, mk in enumerate(docs):
                args = list(base)
                args[i] = cat.var(cat.Fresh(mk, 'mutable'))
                r = cat.render(o, args)
                if r is None:
                    continue
                text, vars_ = r
                yield o, i, di, text, vars_


def to_data_text(text):
    """$vN (context variables) -> $.vN (fields of the host document)"""
    return re.sub(r'\$v(\d+)\b', r'$.v\1', text)


POOL = [
    '$.items.select($ * 2).where($ > 2)', '$.items.orderBy($).reverse()', '$.doc.set(z, 1).keys().orderBy($)',
    '$.items.insert(0, 9)', '$.items.delete(0)', '$.items.replace(0, 5)', '$.items + [4]', '$.doc + {x => 1}',
    '$.doc.deleteAll([a])', '$.items.toSet().union([9].toSet())', 'let(t => $.items) -> $t.append(1)',
    'def(f, $ + 1) -> $.items.select(f($))', '$.nested.selectMany($)', '$.nested.select($.orderBy($))',
    '$.items.groupBy($ mod 2)', '$.items.toDict($, [$])', '$.doc.mergeWith({b => [9]})', '$.items.distinct()',
    '$.nested.first().append(7)', '$.items.memorize().len()', '$hostvar', '$hostvar.append($n)', 'hostFunc($.items)',
    '$.items.zip($.items)', '$.nested.flatten()', '$.items.sum()', '$.items.accumulate($1 + $2)',
    '$.doc.items().orderBy($[0])', "'a,b'.split(',') + $.items", '$.items.unpack(a, b) -> [$b, $a]',
    'with(1, 2) -> $1 + $2', '$.items.insertMany(1, $.items)', '$.items.replaceMany(0, [7, 8])', '$.items.splitAt(1)',
    '$.items.slice(2)', '$.items.orderByDescending($).thenBy($)', '$.nested.orderBy($.len()).thenBy($[0])',
    "$.doc.get(b, [])", '$.doc.b', '$.nested[0]', '[$.items, $.items]', '{k => $.items}', '$.items.skip(1).take(1)',
    "regex('a').replaceBy('banana', $.value.toUpper())", '$.items.aggregate($1 + $2, 0)', '$',
    'scratch($.items)', '$.items.select(scratch($))', 'scratchCtx($.doc)', '[scratchCtx(1), $scratchCtx, scratchCtx(2)]',
    'scratchDollar(5) + $n', 'scratch(1) + scratch(2)', '$.items.len().scratch()' if False else 'scratch($.items.len())',
    'let(a => 1) -> scratch($a)', '[scratchDollar($.items), $, $n]',
]


def pool_doc():
    return {'items': [3, 1, 2], 'doc': {'a': 1, 'b': [1, 2]}, 'nested': [[2, 1], [3]]}


def plan(tier, seed):
    thorough = tier == 'thorough'
    parts = 8
    shards = [{'name': 'catalogue-%d' % p, 'kind': 'catalogue', 'part': p, 'parts': parts, 'timeout': 1800}
              for p in range(parts)]
    for p in range(8 if thorough else 2):
        shards.append({'name': 'history-%d' % p, 'kind': 'history', 'count': 100 if thorough else 12})
    for p in range(8 if thorough else 2):
        shards.append({'name': 'compose-%d' % p, 'kind': 'compose', 'count': 3000 if thorough else 300})
    return shards


def run_shard(spec, rec):
    mon = Mon(rec)
    try:
        globals()['_' + spec['kind']](spec, mon, rec)
    finally:
        mon.close()


def _catalogue(spec, mon, rec):
    idx = -1
    for o, i, di, text, vars_ in catalogue_cases(mon):
        idx += 1
        if idx % spec['parts'] != spec['part']:
            continue
        dtext = to_data_text(text)

        def make_doc(vars_=vars_):
            return {k: cat.materialize(a) for k, a in vars_.items()}
        label = '%s | %s' % (o.ident, dtext)
        for mode_off, eng in ((True, mon.eng_off), (False, mon.eng_on)):
            try:
                st = eng(dtext)
            except Exception as e:
                rec.inconc('generated text does not parse: %r %s' % (dtext, e))
                continue
            mon.protect_statement(st)
            mon.evaluate(st, make_doc, mode_off, label,
                         replay={'kind': 'catalogue', 'ident': o.ident, 'pos': i, 'doc': di, 'text': dtext})
        if idx % 100 == 0:
            rec.sample({'kind': 'catalogue', 'text': dtext, 'document': repr(make_doc())[:200]})


def _interface(mon, rec):
    """python code evaluating through a YaqlInterface built over the host's prepared context: arguments are bound in a
    scope of the call, the prepared context keeps its variables, functions and `$`"""
    from yaql import yaql_interface as yint
    for mode_off, eng in ((False, mon.eng_on), (True, mon.eng_off)):
        prepared = mon.host.create_child_context()
        prepared['$'] = 'HOST-DOLLAR'
        prepared['keep'] = 41
        yi = yint.YaqlInterface(prepared, eng)
        calls = [(lambda: yi('$1 + $keep', 1), 42), (lambda: yi('[$1, $2, $]', 1, 2), [1, 2, 1]), (lambda: yi('$bonus * 2', bonus=4), 8),
                 (lambda: yi('$keep'), 41), (lambda: yi('[$, $bonus, $1]'), ['HOST-DOLLAR', None, 'HOST-DOLLAR']),
                 (lambda: yi.len([1, 2, 3]), 3), (lambda: yi.on([3, 1]).orderBy(yi.engine('$').evaluate), None),
                 (lambda: yi('scratch($1)', 5), 5), (lambda: yi('$1 + $keep', 1), 42)]
        fp0 = ctx_fingerprint(prepared)
        for k, (f, want) in enumerate(calls):
            try:
                got = ('value', f())
            except Exception as e:
                got = ('exc', type(e).__name__)
            rec.count('cases')
            rec.count('interface.calls')
            rec.case(('interface', k, mode_off), nontrivial=True)
            fp = ctx_fingerprint(prepared)
            d = diff_fingerprint(fp0, fp, skip_dollar_in_first=False)
            rp = {'kind': 'interface', 'mode_off': mode_off}
            if d:
                rec.violation('host-context-changed:interface', 'YaqlInterface call #%d on a prepared context changed it: %s' % (k, d), rp)
                fp0 = fp
            if want is not None and got != ('value', want):
                rec.violation('re-evaluation-differs:interface', 'YaqlInterface call #%d gave %r, expected %r' % (k, got, want), rp)


def _sandbox(mon, rec):
    """a context a host built by hand from contexts.Context() and the library modules it wants, without a #finalize
    function: evaluating with it (or with a child of it) changes nothing in it"""
    from yaql.language import contexts as yc
    from yaql.language import conventions as yconv
    from yaql.standard_library import collections as std_collections
    from yaql.standard_library import common as std_common
    from yaql.standard_library import math as std_math
    from yaql.standard_library import queries as std_queries
    from yaql.standard_library import system as std_system
    for mode_off, eng in ((False, mon.eng_on), (True, mon.eng_off)):
        root = yc.Context(convention=yconv.CamelCaseConvention())
        std_system.register_fallbacks(root)
        std_system.register(root)
        sandbox = root.create_child_context()
        std_common.register(sandbox)
        std_math.register(sandbox)
        std_collections.register(sandbox)
        std_queries.register(sandbox)
        sandbox['limit'] = 3
        fp0 = ctx_fingerprint(sandbox)
        for k, (text, use_child) in enumerate((('$.items.select($ + $limit).sum()', False), ('$.items.where($ < $limit).toList()', True),
                                               ('[$.items.len(), $limit]', False), ('$.items', True), ('$', False))):
            ctx = sandbox.create_child_context() if use_child else sandbox
            try:
                got = ('value', eng(text).evaluate(data=pool_doc(), context=ctx))
            except Exception as e:
                got = ('exc', type(e).__name__)
            rec.count('cases')
            rec.count('sandbox.evaluations')
            rec.case(('sandbox', text, use_child, mode_off), nontrivial=True)
            d = diff_fingerprint(fp0, ctx_fingerprint(sandbox), skip_dollar_in_first=True)
            if d:
                rec.violation('host-context-changed:sandbox', 'evaluating %r with a hand-built context without #finalize (child=%s) changed '
                              'it: %s (outcome %r)' % (text, use_child, d, got), {'kind': 'sandbox', 'mode_off': mode_off})
                fp0 = ctx_fingerprint(sandbox)


def _module_eval(mon, rec):
    """yaql.eval: the module's cached default context and engine are prepared once; every call leaves them as they were"""
    import collections as _c
    yaql.eval('1')
    fp0 = ctx_fingerprint(yaql._default_context)
    for k, (text, data, want) in enumerate((('$', 5, 5), ('$.a', {'a': 1}, 1), ('[$, $1]', 7, [7, 7]), ('$', None, None),
                                            ('[$x, $]', 3, [None, 3]), ('$.select($ + 1)', [1, 2], [2, 3]), ('$', 5, 5))):
        try:
            got = ('value', yaql.eval(text, data=data))
        except Exception as e:
            got = ('exc', type(e).__name__)
        rec.count('cases')
        rec.count('module_eval.calls')
        rec.case(('module-eval', k), nontrivial=True)
        d = diff_fingerprint(fp0, ctx_fingerprint(yaql._default_context), skip_dollar_in_first=False)
        if d:
            rec.violation('host-context-changed:yaql.eval', 'yaql.eval(%r, data=%r) changed the cached default context: %s' % (text, data, d),
                          {'kind': 'module-eval'})
            fp0 = ctx_fingerprint(yaql._default_context)
        if got != ('value', want):
            rec.violation('re-evaluation-differs:yaql.eval', 'yaql.eval(%r, data=%r) gave %r, expected %r' % (text, data, got, want),
                          {'kind': 'module-eval'})
    # host mappings with a __missing__ hook (defaultdict): get / indexer-with-default / containsKey of an absent key are
    # reads (plain `$.dd.zz` / `$.dd[zz]` index the mapping itself, whose own __missing__ then stores - not judged)
    for mode_off, eng in ((False, mon.eng_on), (True, mon.eng_off)):
        for text in ('$.dd.get(zz)', '$.dd.get(zz, 1)', '$.dd[zz, 1]', '$.dd.containsKey(zz)', '$.dd.keys().len()',
                     "$.dd.get(a).len()", '$.dd.values().len()', '$.dd.items().len()'):
            st = eng(text)
            mon.protect_statement(st)

            def make():
                dd = _c.defaultdict(list)
                dd['a'] = [1]
                return {'dd': dd, 'items': [1]}
            mon.evaluate(st, make, mode_off, 'defaultdict | ' + text, replay={'kind': 'module-eval'})


def _history(spec, mon, rec):
    rng = rng_for(spec['seed'], 'c09', spec['name'])
    _interface(mon, rec)
    _module_eval(mon, rec)
    _sandbox(mon, rec)
    for h in range(spec['count']):
        texts = rng.sample(POOL, 20)
        mode_off = rng.random() < 0.5
        eng = mon.eng_off if mode_off else mon.eng_on
        stmts = []
        for t in texts:
            st = eng(t)
            mon.protect_statement(st)
            stmts.append((t, st))
        shared_child = mon.host.create_child_context()
        baseline = {}
        order = [rng.randrange(len(stmts)) for _ in range(100)]
        for step, k in enumerate(order):
            t, st = stmts[k]
            same_child = rng.random() < 0.3
            out = mon.evaluate(st, pool_doc, mode_off, 'history | ' + t,
                               ctx=shared_child if same_child else None,
                               replay={'kind': 'history', 'text': t})
            rec.count('history.steps')
            key = out if out[0] == 'exc' else ('value', repr(freeze_unmutated(out[1])))
            if t in baseline and baseline[t] != key:
                rec.violation('re-evaluation-differs:history', 'statement %r gave %r earlier in this history and %r now' % (
                    t, baseline[t], key), {'kind': 'history', 'text': t})
            baseline.setdefault(t, key)
            if step % 4 == 0:
                _contextless(mon, rec, eng, t, st, mode_off)
        if h % 5 == 0:
            rec.sample({'kind': 'history', 'statements': texts[:5], 'steps': len(order)})


def _outcome(f):
    try:
        return ('value', repr(freeze(f())))
    except Exception as e:
        return ('exc', type(e).__name__)


def _contextless(mon, rec, eng, t, st, mode_off):
    """the same statement evaluated without a context: with data, without data, with data again - each
    must equal what a freshly parsed statement gives, and the statement object stays unwritten"""
    # expected outcomes: a fresh statement in a context built for that one evaluation
    want_data = _outcome(lambda: eng(t).evaluate(data=pool_doc(), context=yaql.create_context()))
    want_none = _outcome(lambda: eng(t).evaluate(context=yaql.create_context()))
    mon.attr_writes = []
    mon.armed = True
    try:
        got = [_outcome(lambda: st.evaluate(data=pool_doc())), _outcome(lambda: st.evaluate()),
               _outcome(lambda: st.evaluate(data=pool_doc()))]
    finally:
        mon.armed = False
    rec.count('history.contextless_steps')
    rp = {'kind': 'contextless', 'text': t, 'mode_off': mode_off}
    if got != [want_data, want_none, want_data]:
        rec.violation('re-evaluation-differs:contextless',
                      'statement %r evaluated without a context (with data, without data, with data) gave %r; a fresh statement gives %r' % (
                          t, got, [want_data, want_none, want_data]), rp)
    if mon.attr_writes:
        rec.violation('shared-object-written:%s' % mon.attr_writes[0][0],
                      'attribute writes on the statement during a context-less evaluation of %r: %r' % (t, mon.attr_writes[:3]), rp)


def freeze_unmutated(v):
    """the result has been mutated by mutate_result (sentinels appended); strip them for comparison"""
    if isinstance(v, list):
        return [freeze_unmutated(x) for x in v if x != SENTINEL]
    if isinstance(v, dict):
        return {k: freeze_unmutated(x) for k, x in v.items() if k != SENTINEL}
    if isinstance(v, set):
        return sorted((x for x in v if x != SENTINEL), key=repr)
    return v


STAGES = ['.select($)', '.where(true)', '.orderBy($)', '.reverse()', '.append(1)', '.insert(0, 0)', '.delete(0)',
          '.replace(0, 1)', '.distinct()', '.skip(1)', '.toList()', '.select([$, $])', '.insertMany(0, $.items)',
          '.concat($.items)', '.memorize()', '.flatten()', '.slice(2)', '.enumerate()', '.zip($.items)', '.toSet()',
          '.selectMany([$])', '.takeWhile(true)', '.accumulate($2)', '.orderBy($).thenBy($)', '.splitAt(1)']
HEADS = ['$.items', '$.nested', '$.nested.first()', '$.doc.values()', '$.doc.b', '[$.items, $.items]', '$hostvar',
         '$.doc.set(q, $.items).q', '($.items + $.items)', 'list($.items)']


def _compose(spec, mon, rec):
    rng = rng_for(spec['seed'], 'c09', spec['name'])
    for i in range(spec['count']):
        text = rng.choice(HEADS) + ''.join(rng.choice(STAGES) for _ in range(rng.choice((1, 2, 3, 4))))
        mode_off = rng.random() < 0.6
        eng = mon.eng_off if mode_off else mon.eng_on
        st = eng(text)
        mon.protect_statement(st)
        mon.evaluate(st, pool_doc, mode_off, 'compose | ' + text, replay={'kind': 'compose', 'text': text})
        if i % 150 == 0:
            rec.sample({'kind': 'composition', 'text': text})


def replay(data, rec):
    mon = Mon(rec)
    try:
        eng = mon.eng_off if data.get('mode_off') else mon.eng_on
        if data['kind'] == 'module-eval':
            _module_eval(mon, rec)
        elif data['kind'] == 'sandbox':
            _sandbox(mon, rec)
        elif data['kind'] == 'interface':
            _interface(mon, rec)
        elif data['kind'] == 'contextless':
            st = eng(data['text'])
            mon.protect_statement(st)
            _contextless(mon, rec, eng, data['text'], st, data.get('mode_off'))
        elif data['kind'] == 'catalogue':
            for o, i, di, text, vars_ in catalogue_cases(mon):
                if o.ident == data['ident'] and i == data['pos'] and di == data['doc'] and to_data_text(text) == data['text']:
                    st = eng(data['text'])
                    mon.protect_statement(st)

                    def make_doc(vars_=vars_):
                        return {k: cat.materialize(a) for k, a in vars_.items()}
                    print('document: %r' % (make_doc(),))
                    out = mon.evaluate(st, make_doc, bool(data.get('mode_off')), '%s | %s' % (o.ident, data['text']))
                    print('outcome: %r' % (out,))
                    return
            print('case not found in the catalogue any more')
        else:
            st = eng(data['text'])
            mon.protect_statement(st)
            out = mon.evaluate(st, pool_doc, bool(data.get('mode_off')), data['kind'] + ' | ' + data['text'])
            print('outcome: %r' % (out,))
    finally:
        mon.close()
