"""C04 - core evaluation semantics follow the language reference.

Oracle: vmon.model.evalcore, an independent lexically scoped interpreter over
harness ASTs.  Programs are generated type-directed (so that most succeed) with
nested lambdas, let-chains, shadowing, sibling scopes, closures called from a
different scope, with/unpack/def/-> and member projection; a fraction is
deliberately ill-typed to exercise the error side.
"""
import yaql
from yaql.language import contexts as yctx
from yaql.language import specs as yspecs
from yaql.language import utils as yutils
from yaql.language import yaqltypes as yt
from yaql.standard_library import queries as yqueries
from yaql.standard_library import system as ysystem

from vmon import hooks
from vmon import yq
from vmon.core import rng_for
from vmon.model import evalcore as me

RULE = ('a case is (generated program of the core fragment, JSON-like document bound to `$`, host variables); '
        'distinct by (program text, document); non-trivial = the program contains at least one scoping construct '
        '(lambda, let, with, unpack, def, ->) or a member projection')
ASSUMPTIONS = [
    'errors are compared as "error vs value" (plus the exact class for KeyError / IndexError)',
    'results are compared after finalisation with a type-aware equality (bool != int, list order kept)',
    'the library subset (select where take skip first len sum any all get set selectMany coalesce switch) is modelled '
    'with the same meaning as in C13/C15',
]
REQUIRED = {'programs': 2000, 'agree.value': 1500, 'agree.error': 20, 'construct.lambda': 500, 'construct.let': 300,
            'construct.with': 50, 'construct.unpack': 50, 'construct.def': 100, 'construct.member-projection': 100,
            'nest.lambda-in-lambda': 50, 'nest.let-in-lambda': 50, 'nest.lambda-in-let': 50, 'nest.shadowing': 100,
            'nest.closure-called-under-shadowing': 20, 'nest.unbound-variable': 50, 'pattern.*': 10,
            'construct.elvis': 100, 'nest.elvis-null-receiver': 30, 'nest.elvis-falsy-receiver': 20,
            'reach.Lambda.convert': 1000, 'reach.get_data': 1000, 'reach.let': 100, 'reach.def_': 50,
            'reach.send_context': 100, 'reach.collection_attribution': 50}

VARS = ['x', 'y', 'z']


class G:
    """type-directed generator; env: dict var-name -> type ('I','B','L','LL','D','LD','S') ; '$' included"""

    def __init__(self, rng, stats):
        self.rng = rng
        self.stats = stats
        self.funcs = {}           # name -> True (int -> int closures in scope)
        self.lambda_depth = 0
        self.let_depth = 0
        self.shadowed_since_def = {}

    def note(self, k, n=1):
        self.stats[k] = self.stats.get(k, 0) + n

    def vars_of(self, env, t):
        return [n for n, tt in env.items() if tt == t]

    def gen(self, t, env, d):
        rng = self.rng
        if d <= 0:
            return self.leaf(t, env)
        r = rng.random()
        # scoping constructs are available at every type
        if r < 0.16:
            return self.let(t, env, d)
        if r < 0.20:
            return self.with_(t, env, d)
        if r < 0.24:
            return self.unpack(t, env, d)
        if r < 0.30 and t in ('I', 'L'):
            return self.def_(t, env, d)
        if r < 0.34 and t == 'I' and d >= 2:
            return self.closure_pattern(env, d)
        if r < 0.33:
            self.note('construct.switch')
            return me.Switch([(self.gen('B', env, d - 1), self.gen(t, env, d - 1)), (me.Lit(True), self.gen(t, env, d - 1))])
        return getattr(self, 'gen_' + t)(env, d)

    def leaf(self, t, env):
        rng = self.rng
        vs = self.vars_of(env, t)
        if vs and rng.random() < 0.6:
            return me.Var(self._vname(rng.choice(vs)))
        if t == 'I':
            return me.Lit(rng.choice([0, 1, 2, 3, 5, -1]))
        if t == 'B':
            return me.Lit(rng.choice([True, False]))
        if t == 'S':
            return me.Lit(rng.choice(['a', 'b', 'ab']))
        if t == 'L':
            return me.ListE([me.Lit(rng.choice([0, 1, 2, 3])) for _ in range(rng.choice((0, 1, 2, 3)))])
        if t == 'LL':
            return me.ListE([self.leaf('L', {}) for _ in range(rng.choice((0, 1, 2)))])
        if t == 'D':
            return me.MapE([(k, me.Lit(rng.choice([1, 2, 3]))) for k in rng.sample(['a', 'b', 'c'], rng.choice((1, 2)))])
        if t == 'LD':
            return me.ListE([me.MapE([('a', me.Lit(rng.choice([1, 2, 3])))]) for _ in range(rng.choice((0, 1, 2, 3)))])
        raise ValueError(t)

    @staticmethod
    def _vname(n):
        return n if n.startswith('$') else '$' + n

    def lam(self, t, env, d, elem_t):
        """a one-argument lambda body of result type t over elements of type elem_t"""
        self.note('construct.lambda')
        if self.lambda_depth:
            self.note('nest.lambda-in-lambda')
        if self.let_depth:
            self.note('nest.lambda-in-let')
        env2 = dict(env)
        env2['$'] = elem_t
        self.lambda_depth += 1
        try:
            return me.Lam(self.gen(t, env2, d - 1))
        finally:
            self.lambda_depth -= 1

    def elvis(self, node, t, env, d):
        """sometimes spell a method call / member access with `?.`: skipped (null) only for a null
        receiver; an empty list, empty dict or zero is an ordinary receiver"""
        rng = self.rng
        if rng.random() >= 0.2:
            return node
        node.elvis = True
        self.note('construct.elvis')
        k = rng.random()
        is_member = isinstance(node, me.Member)
        if k < 0.35:
            self.note('nest.elvis-null-receiver')
            null = me.Var('$' + rng.choice(['q', 'qq']))
            if is_member:
                node.a = null
            else:
                node.recv = null
            return me.Coalesce([node, self.gen(t, env, d - 1)])
        if k < 0.6:
            self.note('nest.elvis-falsy-receiver')
            if is_member:
                node.a = me.ListE([])                  # [].a maps over no elements
                return me.Coalesce([me.Call('first', [me.Lit(None)], recv=me.Call('toList', [], recv=node)), self.gen(t, env, d - 1)])
            if node.name in ('get', 'set'):
                node.recv = me.MapE([])
            else:
                node.recv = me.ListE([])
        return node

    def gen_I(self, env, d):
        rng = self.rng
        r = rng.random()
        if r < 0.2:
            return self.leaf('I', env)
        if r < 0.4:
            return me.Bin(rng.choice(['+', '*', '-']), self.gen('I', env, d - 1), self.gen('I', env, d - 1))
        if r < 0.5:
            return self.elvis(me.Call('len', [], recv=self.gen('L', env, d - 1)), 'I', env, d)
        if r < 0.62:
            return self.elvis(me.Call('sum', [me.Lit(0)], recv=self.gen('L', env, d - 1)), 'I', env, d)
        if r < 0.7:
            return self.elvis(me.Call('first', [me.Lit(0)], recv=self.gen('L', env, d - 1)), 'I', env, d)
        if r < 0.78:
            return self.elvis(me.Call('get', [me.Lit(rng.choice(['a', 'b', 'zz'])), me.Lit(0)], recv=self.gen('D', env, d - 1)), 'I', env, d)
        if r < 0.83 and self.funcs:
            f = rng.choice(sorted(self.funcs))
            if self.shadowed_since_def.get(f):
                self.note('nest.closure-called-under-shadowing')
            return me.Call(f, [self.gen('I', env, d - 1)])
        if r < 0.9:
            # unknown variables are null
            self.note('nest.unbound-variable')
            return me.Coalesce([me.Var('$' + rng.choice(['q', 'qq'] + [v for v in VARS if v not in env])), self.gen('I', env, d - 1)])
        if r < 0.95:
            return me.Index(self.gen('L', env, d - 1), me.Lit(rng.choice([0, 1, -1])))      # may raise IndexError
        return self.elvis(me.Member(self.gen('D', env, d - 1), rng.choice(['a', 'b'])), 'I', env, d)    # may raise KeyError

    def gen_B(self, env, d):
        rng = self.rng
        r = rng.random()
        if r < 0.15:
            return self.leaf('B', env)
        if r < 0.5:
            return me.Bin(rng.choice(['>', '<', '=', '>=']), self.gen('I', env, d - 1), self.gen('I', env, d - 1))
        if r < 0.65:
            return me.Bin(rng.choice(['and', 'or']), self.gen('B', env, d - 1), self.gen('B', env, d - 1))
        if r < 0.75:
            return me.Not(self.gen('B', env, d - 1))
        if r < 0.9:
            return self.elvis(me.Call(rng.choice(['any', 'all']), [self.lam('B', env, d, 'I')], recv=self.gen('L', env, d - 1)), 'B', env, d)
        return me.Bin('=', self.gen('L', env, d - 1), self.gen('L', env, d - 1))

    def gen_L(self, env, d):
        e = self._gen_L(env, d)
        # yaql's streaming results are one-shot iterators (not indexable, consumable once); the fragment under test
        # is about scoping, so lazily produced collections are materialised (laziness itself is C13/C14's subject)
        if isinstance(e, (me.Call, me.Member, me.Bin)):
            return me.Call('toList', [], recv=e)
        return e

    def _gen_L(self, env, d):
        rng = self.rng
        r = rng.random()
        if r < 0.2:
            return self.leaf('L', env)
        if r < 0.3:
            return me.ListE([self.gen('I', env, d - 1) for _ in range(rng.choice((1, 2, 3)))])
        if r < 0.5:
            return self.elvis(me.Call('select', [self.lam('I', env, d, 'I')], recv=self.gen('L', env, d - 1)), 'L', env, d)
        if r < 0.65:
            return self.elvis(me.Call('where', [self.lam('B', env, d, 'I')], recv=self.gen('L', env, d - 1)), 'L', env, d)
        if r < 0.72:
            return me.Call(rng.choice(['take', 'skip']), [me.Lit(rng.choice([0, 1, 2]))], recv=self.gen('L', env, d - 1))
        if r < 0.8:
            self.note('construct.member-projection')
            return me.Member(self.gen('LD', env, d - 1), 'a')
        if r < 0.87:
            return me.Call('selectMany', [me.Lam(me.Var('$'))], recv=self.gen('LL', env, d - 1))
        if r < 0.93:
            return me.Call('select', [self.lam('I', env, d, 'L')], recv=self.gen('LL', env, d - 1))
        return me.Bin('+', self.gen('L', env, d - 1), self.gen('L', env, d - 1))

    def gen_LL(self, env, d):
        e = self._gen_LL(env, d)
        return me.Call('toList', [], recv=e) if isinstance(e, me.Call) else e

    def _gen_LL(self, env, d):
        rng = self.rng
        r = rng.random()
        if r < 0.3:
            return self.leaf('LL', env)
        if r < 0.55:
            return me.ListE([self.gen('L', env, d - 1) for _ in range(rng.choice((1, 2)))])
        if r < 0.8:
            return me.Call('select', [self.lam('L', env, d, 'I')], recv=self.gen('L', env, d - 1))
        return me.Call('where', [me.Lam(me.Bin('>', me.Call('len', [], recv=me.Var('$')), me.Lit(rng.choice([0, 1]))))],
                       recv=self.gen('LL', env, d - 1))

    def gen_D(self, env, d):
        rng = self.rng
        r = rng.random()
        if r < 0.35:
            return self.leaf('D', env)
        if r < 0.7:
            return me.MapE([(k, self.gen('I', env, d - 1)) for k in rng.sample(['a', 'b', 'c'], rng.choice((1, 2, 3)))])
        return me.Call('set', [me.Lit(rng.choice(['a', 'b', 'k'])), self.gen('I', env, d - 1)], recv=self.gen('D', env, d - 1))

    def gen_LD(self, env, d):
        e = self._gen_LD(env, d)
        return me.Call('toList', [], recv=e) if isinstance(e, me.Call) else e

    def _gen_LD(self, env, d):
        rng = self.rng
        r = rng.random()
        if r < 0.4:
            return self.leaf('LD', env)
        if r < 0.7:
            return me.Call('select', [me.Lam(me.MapE([('a', self.gen('I', dict(env, **{'$': 'I'}), d - 2))]))],
                           recv=self.gen('L', env, d - 1))
        return me.ListE([me.MapE([('a', self.gen('I', env, d - 1))]) for _ in range(rng.choice((1, 2)))])

    def gen_S(self, env, d):
        return self.leaf('S', env)

    # ---- scoping constructs ----------------------------------------------------------------
    def let(self, t, env, d):
        rng = self.rng
        self.note('construct.let')
        if self.lambda_depth:
            self.note('nest.let-in-lambda')
        named = []
        env2 = dict(env)
        for _ in range(rng.choice((1, 1, 2))):
            name = rng.choice(VARS)
            vt = rng.choice(['I', 'I', 'L', 'D', 'B'])
            if name in env2 or name in dict(named):
                self.note('nest.shadowing')
            named.append((name, self.gen(vt, env, d - 1)))
            env2[name] = vt
        named = list(dict(named).items())
        pos = []
        if rng.random() < 0.25:
            pt = rng.choice(['I', 'L'])
            pos.append(self.gen(pt, env, d - 1))
            env2['$'] = pt
            if '$' in env:
                self.note('nest.shadowing')
        saved = dict(self.shadowed_since_def)
        for f in self.funcs:
            self.shadowed_since_def[f] = True
        self.let_depth += 1
        try:
            body = self.gen(t, env2, d - 1)
        finally:
            self.let_depth -= 1
            self.shadowed_since_def = saved
        return me.Let(pos, named, body)

    def with_(self, t, env, d):
        self.note('construct.with')
        pt = self.rng.choice(['I', 'L', 'D'])
        env2 = dict(env)
        env2['$'] = pt
        if '$' in env:
            self.note('nest.shadowing')
        return me.With([self.gen(pt, env, d - 1)], self.gen(t, env2, d - 1))

    def unpack(self, t, env, d):
        rng = self.rng
        self.note('construct.unpack')
        n = rng.choice((1, 2))
        names = rng.sample(VARS, n)
        seq = me.ListE([self.gen('I', env, d - 1) for _ in range(n)])
        env2 = dict(env)
        for nm in names:
            if nm in env2:
                self.note('nest.shadowing')
            env2[nm] = 'I'
        return me.Unpack(seq, names, self.gen(t, env2, d - 1))

    def closure_pattern(self, env, d):
        """let(v => a) -> def(f, body using $ and $v) -> let(v => b) -> f(c): the closure keeps its defining scope"""
        rng = self.rng
        v = rng.choice(VARS)
        name = rng.choice(['f', 'g', 'sumSq', 'fnA'])
        self.note('construct.let', 2)
        self.note('construct.def')
        self.note('nest.shadowing')
        self.note('nest.closure-called-under-shadowing')
        env1 = dict(env)
        env1[v] = 'I'
        env_body = dict(env1)
        env_body['$'] = 'I'
        fbody = me.Bin(rng.choice(['+', '*', '-']), self.gen('I', env_body, d - 2), me.Var('$' + v))
        call = me.Call(name, [self.gen('I', env1, d - 2)])
        return me.Let([], [(v, self.gen('I', env, d - 2))],
                      me.Def(name, fbody, me.Let([], [(v, self.gen('I', env1, d - 2))], call)))

    def def_(self, t, env, d):
        rng = self.rng
        self.note('construct.def')
        name = rng.choice(['f', 'g', 'sumSq', 'fnA'])
        env_body = dict(env)
        env_body['$'] = 'I'
        fbody = self.gen('I', env_body, d - 1)
        had = name in self.funcs
        saved = self.shadowed_since_def.get(name)
        self.funcs[name] = True
        self.shadowed_since_def[name] = False
        try:
            body = self.gen(t, env, d - 1)
        finally:
            if not had:
                del self.funcs[name]
            self.shadowed_since_def[name] = saved
        return me.Def(name, fbody, body)


def gen_doc(rng):
    return {
        'items': [rng.choice([0, 1, 2, 3, 5]) for _ in range(rng.choice((0, 1, 2, 3, 4)))],
        'nested': [[rng.choice([1, 2, 3]) for _ in range(rng.choice((0, 1, 2)))] for _ in range(rng.choice((0, 1, 2, 3)))],
        'doc': {k: rng.choice([1, 2, 3]) for k in rng.sample(['a', 'b', 'c'], rng.choice((1, 2, 3)))},
        'recs': [{'a': rng.choice([1, 2, 3]), 'b': 'x'} for _ in range(rng.choice((0, 1, 2, 3)))],
        'n': rng.choice([0, 1, 4]),
        'name': rng.choice(['a', 'ab']),
    }


DOC_ENV = {'items': 'L', 'nested': 'LL', 'doc': 'D', 'recs': 'LD', 'n': 'I'}


def same(x, y):
    if type(x) is not type(y):
        return False
    if isinstance(x, dict):
        return len(x) == len(y) and all(k in y and same(v, y[k]) for k, v in x.items())
    if isinstance(x, list):
        return len(x) == len(y) and all(same(a, b) for a, b in zip(x, y))
    return x == y


def host_override_layer(base):
    """a host layer that overrides a few library functions and forwards to the overridden ones through an injected
    Super(): every lambda keeps the scope of its call site"""
    ctx = base.create_child_context()

    def forward(name, params):
        src = ['def %s(%s, base):' % (name, ', '.join(p for p, lazy in params)),
               '    return base(%s)' % ', '.join(p for p, lazy in params)]
        ns = {}
        exec('\n'.join(src), ns)
        fn = ns[name]
        for p, lazy in params:
            if lazy:
                fn = yspecs.parameter(p, yt.Lambda())(fn)
        fn = yspecs.parameter(params[0][0], yt.Iterable())(fn)
        fn = yspecs.inject('base', yt.Super(method=True))(fn)
        fn = yspecs.method(fn)
        ctx.register_function(fn, name=name)
    forward('select', [('collection', False), ('selector', True)])
    forward('where', [('collection', False), ('predicate', True)])
    forward('any', [('collection', False), ('predicate', True)])
    forward('all', [('collection', False), ('predicate', True)])
    return ctx


class Mon:
    def __init__(self, rec):
        self.rec = rec
        self.eng = yq.engine({'yaql.limitIterators': 5000})
        self.ctx = yaql.create_context()
        # other worlds in which the same program has the same meaning: another naming convention, the delegate
        # functions and syntax enabled, a host layer that overrides library functions and forwards to them
        from yaql.language import conventions as yconv
        self.worlds = {
            'python-convention': (self.eng, yaql.create_context(convention=yconv.PythonConvention())),
            'delegates': (yq.engine({'yaql.limitIterators': 5000}, allow_delegates=True), yaql.create_context(delegates=True)),
            'host-overrides': (self.eng, host_override_layer(yaql.create_context())),
        }
        self.reach = hooks.Reach()
        self.reach.watch(yt.Lambda.convert, 'Lambda.convert')
        self.reach.watch(yctx.Context.get_data, 'get_data')
        self.reach.watch(ysystem.let, 'let')
        self.reach.watch(ysystem.with_, 'with_')
        self.reach.watch(ysystem.unpack, 'unpack')
        self.reach.watch(ysystem.def_, 'def_')
        self.reach.watch(ysystem.send_context, 'send_context')
        self.reach.watch(yqueries.collection_attribution, 'collection_attribution')
        for const in yspecs.FunctionDefinition.get_delegate.__code__.co_consts:
            if hasattr(const, 'co_name') and const.co_name == 'func':
                self.reach.watch(const, 'get_delegate.func')
        self.reach.start()

    def close(self):
        self.reach.flush(self.rec)
        self.reach.stop()

    def run(self, text, doc, variables, world=None):
        eng, base = self.worlds[world] if world else (self.eng, self.ctx)
        ctx = base.create_child_context()
        if world:
            if world == 'python-convention':      # library names are spelled in snake_case there
                text = text.replace('.toList(', '.to_list(').replace('.selectMany(', '.select_many(')
            for k, v in variables.items():
                ctx[k] = yutils.convert_input_data(v)
            try:
                return ('value', eng(text).evaluate(data=doc, context=ctx))
            except KeyError:
                return ('error', 'KeyError')
            except IndexError:
                return ('error', 'IndexError')
            except Exception as e:
                return ('error', type(e).__name__)
        for k, v in variables.items():
            ctx[k] = yutils.convert_input_data(v)     # what a host does for data it puts into a context
        try:
            return ('value', self.eng(text).evaluate(data=doc, context=ctx))
        except KeyError:
            return ('error', 'KeyError')
        except IndexError:
            return ('error', 'IndexError')
        except Exception as e:
            return ('error', type(e).__name__)


def one_program(mon, rec, rng, rp):
    stats = {}
    g = G(rng, stats)
    doc = gen_doc(rng)
    # variables: the document fields are reachable as $.field; a few host variables live in the host's child context
    host_vars = {}
    env = {}
    if rng.random() < 0.5:
        host_vars['x'] = rng.choice([1, 2, 7])
        env['x'] = 'I'
    if rng.random() < 0.3:
        host_vars['y'] = [1, 2]
        env['y'] = 'L'
    t = rng.choice(['I', 'I', 'L', 'L', 'B', 'D', 'LL'])
    depth = rng.choice((2, 3, 4, 5)) if rec.spec.get('tier') != 'thorough' else rng.choice((2, 3, 4, 5, 6, 7))
    # expose the document fields through let-free access: wrap the program in a let over $.fields so that typed
    # variables exist, plus direct `$.field` member access inside
    prog_env = dict(env)
    named = []
    for fld, ft in DOC_ENV.items():
        if rng.random() < 0.6:
            named.append((fld[0] + fld[-1], me.Member(me.Var('$'), fld)))
            prog_env[fld[0] + fld[-1]] = ft
    body = g.gen(t, prog_env, depth)
    prog = me.Let([], named, body) if named else body
    text = prog.text()
    try:
        want = ('value', me.evaluate(prog, doc, host_vars))
    except me.ModelError as e:
        want = ('error', e.kind)
    except RecursionError:
        return
    except (TypeError, ZeroDivisionError, ValueError, AttributeError):
        want = ('error', 'error')
    got = mon.run(text, doc, host_vars)
    rec.count('programs')
    for k, v in stats.items():
        rec.count(k, v)
    scoping = any(k.startswith('construct.') and k != 'construct.switch' for k in stats)
    rec.case((text, repr(doc), repr(host_vars)), nontrivial=scoping)
    ok = got[0] == want[0]
    if ok and got[0] == 'value':
        ok = same(got[1], want[1])
    if ok and got[0] == 'error' and want[1] in ('KeyError', 'IndexError'):
        ok = got[1] == want[1]
    rec.count(('agree.' + got[0]) if ok else 'disagree')
    if ok:
        w = rng.choice(sorted(mon.worlds))
        other = mon.run(text, doc, host_vars, world=w)
        rec.count('world.' + w)
        same_w = other[0] == got[0] and (same(other[1], got[1]) if got[0] == 'value' else (
            other[1] == got[1] or want[1] not in ('KeyError', 'IndexError')))
        if not same_w:
            kinds = sorted(k.split('.', 1)[1] for k in stats if k.startswith(('construct.', 'nest.')))
            rec.violation('evaluation-depends-on-context-flavour:%s' % w,
                          '%s on document %r gives %r in the default context and %r in the %s world (constructs %s)' % (
                              text, doc, got, other, w, '+'.join(kinds)[:80]), dict(rp, text=text))
    if not ok:
        kinds = sorted(k.split('.', 1)[1] for k in stats if k.startswith(('construct.', 'nest.')))
        rec.violation('evaluation-differs-from-reference-interpreter:%s' % ('+'.join(kinds)[:80] or 'plain'),
                      '%s on document %r with host variables %r gives %r, the reference interpreter gives %r' % (
                          text, doc, host_vars, got, want), dict(rp, text=text))
    return text, got


FIXED = [
    # (text, doc, vars, expected)
    ('def(f, [$x, $]) -> let(x => 10) -> f(1)', {}, {'x': 3}, [3, 1]),
    ('let(x => 1) -> [let(x => 2) -> $x, $x]', {}, {}, [2, 1]),
    ('[let(x => 1) -> $x, $x]', {}, {}, [1, None]),
    ('$.items.select($ * $n)', {'items': [1, 2]}, {'n': 3}, [3, 6]),
    ('$.items.select(let(o => $) -> [1, 2].select($ + $o))', {'items': [10, 20]}, {}, [[11, 12], [21, 22]]),
    ('with(5) -> $', {'a': 1}, {}, 5),
    ('with(5) -> $1 + $', {}, {}, 10),
    ('$unknown', {}, {}, None),
    ('[1, 2].unpack(a, b) -> $b - $a', {}, {}, 1),
    ('$.recs.a', {'recs': [{'a': 1}, {'a': 2}]}, {}, [1, 2]),
    ('$.recs.b.c', {'recs': [{'b': [{'c': 1}, {'c': 2}]}, {'b': []}]}, {}, [[1, 2], []]),
    ('let(a => 1) -> let(b => $a + 1) -> let(a => $b * 10) -> [$a, $b]', {}, {}, [20, 2]),
    ('def(f, $ + 1) -> def(g, f($) * 2) -> g(3)', {}, {}, 8),
    ('def(f, $1 + $2) -> f(1, 2)', {}, {}, 3),
    ('[1, 2, 3].where($ > 1).select($ * 10).sum()', {}, {}, 50),
    ("{a => 1, 'b' => [1, 2]}.b[1]", {}, {}, 2),
    ('let(1, 2) -> $ + $2', {}, {}, 3),
    ('let(x => [1, 2]) -> $x.select($ + $x.len())', {}, {}, [3, 4]),
    ('[[1, 2], [3]].select($.select($ * 2))', {}, {}, [[2, 4], [6]]),
    ('def(fact, switch($ < 2 => 1, true => $ * fact($ - 1))) -> fact(5)', {}, {}, 120),
    # def() defines a function: method-call syntax keeps meaning the library's methods
    ('def(len, 42) -> [1, 2, 3].len()', {}, {}, 3),
    ('def(first, 0) -> [5, 6].first()', {}, {}, 5),
    ('def(len, 42) -> [len(), [1].len()]', {}, {}, [42, 1]),
    ('def(sum, $ + 100) -> [[1, 2].sum(), sum(1)]', {}, {}, [3, 101]),
    ('def(toUpper, 7) -> $.name.toUpper()', {'name': 'ab'}, {}, 'AB'),
]
# variable, parameter and keyword names are the host's and the query author's business: names that coincide with
# python identifiers the implementation uses internally bind like any other name
PY_NAMES = ['self', 'other', 'context', 'name', 'args', 'kwargs', 'engine', 'receiver', 'data', 'key', 'value', 'cls', 'func',
            'variables', 'expr', 'sender', 'parent', 'items', 'kw', 'function', 'method', 'default', 'convention', 'options',
            'len', 'str', 'dict', 'list', 'type', 'id', 'iter', 'next', 'update', 'get', 'keys', 'values', 'copy', 'pop']
for _n in PY_NAMES:
    FIXED.append(('let(%s => 7) -> $%s' % (_n, _n), {}, {}, 7))
    FIXED.append(('let(%s => 7, x => 1) -> [$x, $%s]' % (_n, _n), {}, {}, [1, 7]))
    FIXED.append(('def(f, $%s * 2) -> f(%s => 21)' % (_n, _n), {}, {}, 42))
    FIXED.append(('def(f, [$%s, $]) -> f(3, %s => 21)' % (_n, _n), {}, {}, [21, 3]))
    FIXED.append(('[5].unpack(%s) -> $%s' % (_n, _n), {}, {}, 5))
    FIXED.append(('[5, 6].unpack(x, %s) -> [$%s, $x]' % (_n, _n), {}, {}, [6, 5]))
    FIXED.append(('$%s' % _n, {}, {_n: 8}, 8))
    FIXED.append(('{%s => 1}.%s' % (_n, _n), {}, {}, 1))
    FIXED.append(('dict(%s => 1).get(%s)' % (_n, _n), {}, {}, 1))
    FIXED.append(('{a => 1}.set(%s => 2).get(%s)' % (_n, _n), {}, {}, 2))
del _n

FIXED_ERRORS = [
    # programs that must fail: a def'd name is not a method of values
    'def(sq, $ * $) -> 3.sq()', 'def(twice, [$, $]) -> [1].twice()', "def(shout, $ + '!') -> 'a'.shout()",
]


NOMATCH = ('error', 'NoMatchingFunctionException')
FIXED_WORLDS = [
    # (world, text, data, expected value | NOMATCH): first-class functions (delegates enabled) and the legacy function set
    ('delegates', 'let(f => lambda($ + 1)) -> $f(2)', None, 3),
    ('delegates', 'lambda($1 + $2)(1, 2)', None, 3),
    ('delegates', 'let(x => 5) -> let(f => lambda($ + $x)) -> let(x => 7) -> $f(1)', None, 6),
    ('delegates', 'let(f => lambda($ * 2)) -> [1, 2].select($f($))', None, [2, 4]),
    ('delegates', 'let(mk => lambda(lambda($ + $1))) -> $mk(10)(5)', None, 10),
    ('delegates', 'let(f => lambda($)) -> $f()', 9, 9),
    ('delegates', 'let(f => lambda([$, $1, $2])) -> $f(1, 2)', 9, [1, 1, 2]),
    ('delegates', 'let(f => lambda($x)) -> let(x => 3) -> $f()', None, None),
    ('delegates', 'let(f => null) -> $f(1)', None, NOMATCH),          # a value that is not a function is not callable:
    ('delegates', '$undefined(1)', None, NOMATCH),                    # unknown variables are null
    ('delegates', '($.handler)(1)', {'handler': None}, NOMATCH),
    ('delegates', 'let(f => 5) -> $f(1)', None, NOMATCH),
    ('delegates', "let(f => 'len') -> $f([1])", None, NOMATCH),
    # collections of function values: a variable that holds a function is a value like any other until it is called
    ('delegates', 'let(f => lambda($ + 1)) -> [$f, $f].select($).len()', None, 2),
    ('delegates', 'let(f => lambda($ + 1)) -> [5, 6].select($f).len()', None, 2),
    ('delegates', 'let(f => lambda($ + 1)) -> [$f].select($).select($(1))', None, [2]),
    ('delegates', 'let(f => lambda($ + 1)) -> [5, 6].select($f).select($(1))', None, [2, 2]),
    ('delegates', 'let(f => lambda($ + 1)) -> [$f].where($).len()', None, 1),
    ('delegates', 'let(f => lambda($ + 1), g => lambda($ * 3)) -> [$f, $g].select($(2))', None, [3, 6]),
    ('delegates', 'let(f => lambda($ + 1)) -> [$f, $f].takeWhile($).len()', None, 2),
    ('delegates', 'let(f => lambda($ + 1)) -> [1, 2].aggregate($f, 0)(5)', None, 6),
    ('delegates', 'let(f => lambda($ + 1)) -> coalesce(null, $f)(1)', None, 2),
    ('delegates', 'let(f => lambda($ + 1)) -> ({a => $f}.a)(1)', None, 2),
    # names with a trailing underscore (the spelling of names that are reserved words in the host language)
    ('python', 'def(from_, $ + 1) -> from_(1)', None, 2),
    ('python', 'def(f_, 1) -> def(f_, 2) -> f_()', None, 2),
    ('python', 'def(inc_, $ + 1) -> call(inc_, [41], {})', None, 42),
    ('python', 'def(my_fn, $ * 2) -> my_fn(4)', None, 8),
    ('python', 'def(my_fn_, $ * 2) -> [1, 2].select(my_fn_($))', None, [2, 4]),
    ('python', 'let(from_ => 3) -> $from_', None, 3),
    ('python', 'def(f, $from_ + 1) -> f(from_ => 1)', None, 2),
    ('default', 'def(from_, $ + 1) -> from_(1)', None, 2),
    ('default', 'def(f_, 1) -> def(f_, 2) -> f_()', None, 2),
    ('default', 'def(inc_, $ + 1) -> call(inc_, [41], {})', None, 42),
    ('legacy', '[1, 2].as(sum($) => a) -> $', 77, 77),                 # as() binds names, `$` stays the outer one
    ('legacy', '[1, 2].as(sum($) => a) -> $a', 77, 3),
    ('legacy', '$.as(len($) => n) -> $n', [1, 2, 3], 3),
    ('legacy', '[1, 2].as(len($) => n, sum($) => s) -> [$n, $s, $]', 5, [2, 3, 5]),
    ('legacy', '5.as($ + 1 => a, $ + 2 => b) -> $a * $b', None, 42),
    ('legacy', '5.as($ + 1 => a) -> 7.as($ * 2 => b) -> [$a, $b, $]', 1, [6, 14, 1]),
    ('legacy', '[1, 2].as($a => b) -> $b', None, None),
]


def pattern_programs(rng):
    """parametrised programs for the invocation-scope rules: every call of a lambda / def'd function gets its own
    fresh parameter scope, whatever was passed to earlier calls, also under recursion and lazy consumption"""
    L, V, B, C = me.Lit, me.Var, me.Bin, me.Call
    a, b, c, k = (rng.choice([1, 2, 3, 5, 7]) for _ in range(4))
    l1 = me.ListE([L(rng.choice([1, 2, 3])) for _ in range(rng.choice((1, 2, 3)))])
    l2 = me.ListE([L(rng.choice([4, 5, 6])) for _ in range(rng.choice((1, 2)))])
    op = rng.choice(['+', '*', '-'])
    n = rng.choice((0, 1, 3, 4))
    out = []
    # fewer arguments on a later call: missing parameters are null, not leftovers
    out.append(('multi-arity', me.Def('f', me.ListE([V('$1'), V('$2')]), me.ListE([C('f', [L(a), L(b)]), C('f', [L(c)])]))))
    out.append(('multi-arity-rev', me.Def('f', me.ListE([V('$1'), V('$2'), V('$')]),
                                          me.ListE([C('f', [L(c)]), C('f', [L(a), L(b)]), C('f', [])]))))
    # named lambda arguments do not survive to the next call
    out.append(('named-arg', me.Def('f', B('+', me.Coalesce([V('$k'), L(0)]), V('$1')),
                                    me.ListE([C('f', [L(a)], kwargs=[('k', L(k))]), C('f', [L(b)])]))))
    # recursion: `$` read after the recursive call still belongs to this invocation (both operand orders)
    rec1 = me.Switch([(B('<', V('$'), L(1)), L(k)), (L(True), B(op, C('r', [B('-', V('$'), L(1))]), V('$')))])
    rec2 = me.Switch([(B('<', V('$'), L(1)), L(k)), (L(True), B(op, V('$'), C('r', [B('-', V('$'), L(1))])))])
    out.append(('recursion-after', me.Def('r', rec1, C('r', [L(n)]))))
    out.append(('recursion-before', me.Def('r', rec2, C('r', [L(n)]))))
    out.append(('recursion-two-args', me.Def('r', me.Switch([(B('<', V('$1'), L(1)), V('$2')),
                                                             (L(True), B('+', C('r', [B('-', V('$1'), L(1)), B('+', V('$2'), V('$1'))]), V('$1')))]),
                                             C('r', [L(n), L(a)]))))
    # lazily consumed closures over their own parameters: two invocations, results consumed afterwards
    lazy_body = C('select', [me.Lam(B('+', V('$'), V('$o')))], recv=V('$1'))
    out.append(('lazy-closure', me.Def('f', me.Let([], [('o', V('$2'))], lazy_body), me.ListE([C('f', [l1, L(a)]), C('f', [l2, L(b)])]))))
    out.append(('lazy-closure-direct', me.Def('f', C('select', [me.Lam(B('+', V('$'), L(a)))], recv=V('$1')),
                                              me.ListE([C('f', [l1]), C('f', [l2])]))))
    out.append(('lazy-siblings', me.ListE([C('select', [me.Lam(B('*', V('$'), L(a)))], recv=l1),
                                           C('select', [me.Lam(B('*', V('$'), L(b)))], recv=l1)])))
    # a lambda invoked per element sees its own element even when an inner call rebinds `$`
    out.append(('element-after-inner-call', C('toList', [], recv=C('select', [me.Lam(
        B('+', C('sum', [L(0)], recv=C('toList', [], recv=C('select', [me.Lam(B('*', V('$'), L(2)))], recv=l2))), V('$')))], recv=l1))))
    # a name bound to null in an inner scope shadows the outer binding (null is a value, not "undefined")
    N = L(None)
    out.append(('null-shadow-let', me.Let([], [('x', L(a))], me.Let([], [('x', N)], me.ListE([V('$x'), me.Coalesce([V('$x'), L(k)])])))))
    out.append(('null-shadow-with', me.With([L(a)], me.With([N], me.ListE([V('$'), V('$1')])))))
    out.append(('null-shadow-doc', me.With([N], me.Coalesce([V('$1'), L(k)]))))
    out.append(('null-shadow-unpack', me.Let([], [('p', L(a)), ('q', L(b))],
                                             me.Unpack(me.ListE([N, L(c)]), ['p', 'q'], me.ListE([V('$p'), V('$q')])))))
    out.append(('null-element', C('toList', [], recv=C('select', [me.Lam(me.Coalesce([V('$'), L(k)]))], recv=me.ListE([N, L(a), N])))))
    out.append(('null-element-raw', C('toList', [], recv=C('select', [me.Lam(V('$'))], recv=me.ListE([N, L(a)])))))
    out.append(('null-argument', me.Let([], [('x', L(a))], me.Def('f', me.ListE([V('$'), V('$1'), V('$x')]), C('f', [N])))))
    out.append(('null-lambda-in-let', me.Let([L(a)], [], C('toList', [], recv=C('where', [me.Lam(B('=', V('$'), N))], recv=me.ListE([N, L(b)]))))))
    # with / let positional: `$` and `$1` are one variable, restored after the construct
    out.append(('dollar-alias', me.ListE([me.With([L(a)], me.ListE([V('$'), V('$1')])), me.Let([L(b)], [], V('$')),
                                          me.Coalesce([V('$2'), L(-1)])])))
    return out


def plan(tier, seed):
    thorough = tier == 'thorough'
    return [{'name': 'prog-%d' % p, 'kind': 'prog', 'count': 20000 if thorough else 1000, 'timeout': 3000}
            for p in range(16)] + [{'name': 'fixed', 'kind': 'fixed'},
                                   {'name': 'patterns', 'kind': 'patterns', 'count': 1500 if thorough else 150}]


def run_shard(spec, rec):
    mon = Mon(rec)
    try:
        if spec['kind'] == 'fixed':
            for text, doc, vars_, want in FIXED:
                got = mon.run(text, doc, vars_)
                rec.count('programs')
                rec.count('fixed.programs')
                rec.case((text, repr(doc)), nontrivial=True)
                if not (got[0] == 'value' and same(got[1], want)):
                    rec.violation('evaluation-differs-from-language-reference:fixed', '%s on %r gives %r, expected %r' % (
                        text, doc, got, want), {'kind': 'fixed', 'text': text})
                else:
                    rec.count('agree.value')
            for text in FIXED_ERRORS:
                got = mon.run(text, {}, {})
                rec.count('programs')
                rec.count('fixed.programs')
                rec.case((text, 'must-fail'), nontrivial=True)
                if got[0] != 'error':
                    rec.violation('evaluation-differs-from-language-reference:fixed', '%s gives %r, a method of that name does not exist' % (
                        text, got), {'kind': 'fixed', 'text': text})
                else:
                    rec.count('agree.error')
            from yaql import legacy as ylegacy
            from yaql.language import conventions as yconv
            worlds = {'delegates': [(yq.engine(allow_delegates=True), yaql.create_context(delegates=True))],
                      'python': [(yq.engine(), yaql.create_context(convention=yconv.PythonConvention()))],
                      'default': [(yq.engine(), yaql.create_context())],
                      'legacy': [(ylegacy.YaqlFactory().create(), ylegacy.create_context()), (yq.engine(), ylegacy.create_context())]}
            for world, text, doc, want in FIXED_WORLDS:
                for eng, base in worlds[world]:
                    try:
                        got = ('value', eng(text).evaluate(data=doc, context=base.create_child_context()))
                    except Exception as e:
                        got = ('error', type(e).__name__)
                    rec.count('programs')
                    rec.count('fixed.programs')
                    rec.count('fixed.world.' + world)
                    rec.case((world, text, repr(doc)), nontrivial=True)
                    if got[0] == 'value' and isinstance(got[1], tuple):
                        got = ('value', list(got[1]))         # the legacy engine keeps tuples
                    ok = got == want if want is NOMATCH else (got[0] == 'value' and same(got[1], want))
                    if not ok:
                        rec.violation('evaluation-differs-from-language-reference:fixed:%s' % world,
                                      '%s on %r (%s world) gives %r, expected %r' % (text, doc, world, got, want),
                                      {'kind': 'fixed', 'text': text})
                    else:
                        rec.count('agree.' + got[0])
            return
        if spec['kind'] == 'patterns':
            rng = rng_for(spec['seed'], 'c04', spec['name'])
            for i in range(spec['count']):
                for name, prog in pattern_programs(rng):
                    doc = gen_doc(rng)
                    text = prog.text()
                    try:
                        want = ('value', me.evaluate(prog, doc))
                    except me.ModelError as e:
                        want = ('error', e.kind)
                    got = mon.run(text, doc, {})
                    rec.count('programs')
                    rec.count('pattern.' + name)
                    rec.case((text,), nontrivial=True)
                    ok = got[0] == want[0] and (got[0] == 'error' or same(got[1], want[1]))
                    rec.count(('agree.' + got[0]) if ok else 'disagree')
                    if not ok:
                        rec.violation('evaluation-differs-from-reference-interpreter:pattern:%s' % name,
                                      '%s gives %r, the reference interpreter gives %r' % (text, got, want),
                                      {'kind': 'patterns', 'shard': spec['name'], 'count': spec['count'], 'text': text})
                if i % 50 == 0:
                    rec.sample({'pattern': name, 'program': text})
            return
        rng = rng_for(spec['seed'], 'c04', spec['name'])
        for i in range(spec['count']):
            r = one_program(mon, rec, rng, {'kind': 'prog', 'shard': spec['name'], 'count': spec['count']})
            if r and i % 300 == 0:
                rec.sample({'program': r[0][:400], 'outcome': repr(r[1])[:120]})
    finally:
        mon.close()


def replay(data, rec):
    if data['kind'] == 'fixed':
        run_shard({'name': 'fixed', 'kind': 'fixed', 'seed': rec.spec['seed'], 'tier': rec.spec['tier']}, rec)
        return
    print('C04 programs are regenerated from their seed; re-running shard %s' % data['shard'])
    run_shard({'name': data['shard'], 'kind': data['kind'], 'count': data['count'], 'seed': rec.spec['seed'],
               'tier': rec.spec['tier']}, rec)
    rec.violations = [v for v in rec.violations if v['replay'].get('text') == data.get('text')][:2] or rec.violations[:2]


def selftest():
    me.selftest()
