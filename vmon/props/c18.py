"""C18 - concurrent evaluations do not interfere.

Oracle: sequential baseline of every (statement, data) in a fresh child of the
shared prepared context.  Monitors: results per thread under the baton
scheduler (scheduling points at every yaql.language.runner.call entry and at
every step of instrumented input iterators; stateless DFS for short traces,
random schedules with bounded preemptions for long ones), ownership monitor on
Context mutators (shared chain read-only, no cross-thread writes), __setattr__
log on shared expression nodes / function and parameter definitions,
fingerprint of the shared context, module-level yaql.eval caches, free-running
threads at 1 us switch interval and LINE-level yield injection (thorough).
"""
import sys
import threading

import yaql
from yaql.language import contexts as yctx
from yaql.language import expressions as yexpr
from yaql.language import runner as yrunner
from yaql.language import specs as yspecs
from yaql.language import utils as yutils
from yaql.language import yaqltypes as yqtypes

from vmon import hooks
from vmon import sched
from vmon import yq
from vmon.core import rng_for
from vmon.props import c09

RULE = ('a case is (assignment of statements and documents to 2-4 threads, schedule); distinct by (statement texts, '
        'documents, choice sequence); non-trivial = the baton moved between two dispatches of one evaluation at least '
        'once (controlled modes) or, in free-running mode, every evaluation')
ASSUMPTIONS = [
    'interleavings are explored at function-dispatch and input-iterator-step granularity; between two points a thread '
    'runs atomically in the controlled modes; finer switches are sampled by the free-running and yield-injection modes',
    'nondeterministic functions are excluded; one-shot iterators are created per evaluation, never shared',
    'baseline = the same (statement, data) evaluated alone in a fresh child of the shared context before threads start',
]
REQUIRED = {'sched.schedules': 500, 'sched.with_switch': 300, 'hook.call_points': 5000, 'hook.iter_points': 50,
            'ownership.contexts_created': 1000, 'free.evaluations': 200, 'evalcache.evaluations': 50,
            'pool.statements': 40, 'reach.runner.call': 5000,
            'sched.line_schedules': 500, 'sched.line_with_switch': 300, 'hook.line_points': 50000,
            'sched.cold_schedules': 500, 'sched.cold_with_switch': 300,
            'sched.cold_engine_schedules': 300, 'evalcache.distinct_texts': 300}

POOL = c09.POOL + [
    # strings / regex / datetime / math / branching / system: every library module
    "'a,b,c'.split(',').select($.toUpper()).join('-')", "regex('(a)(?P<n>b)?').searchAll('abab a', [$.value, $2.value, $n])",
    "regex('a+').replaceBy('caab', $.value.len().toString())" if False else "regex('a+').replaceBy('caab', str($.value.len()))",
    "'abcabc'.replace({a => x, b => y}).substring(1, 3)", "datetime(2020, 2, 29, 12).utc.timestamp",
    "(datetime(2020, 1, 1) + timespan(days => 1) - datetime(2020, 1, 1)).hours", "timespan(hours => 36).days * 2",
    '$.items.orderBy($).thenByDescending($ mod 2)', '$.nested.orderBy($.len()).select($.sum(0))',
    '$.items.groupBy($ mod 2, $ * 2, $.sum())', '$.items.memorize().select($ + 1).memorize().len()',
    '$.items.join($.items, $1 = $2, [$1, $2])', 'def(f, $ * 2) -> $.items.select(f($)).sum(0)',
    'let(a => $.items) -> let(b => $a.len()) -> $a.select($ + $b)', 'switch($.items.len() > 2 => big, true => small)',
    'coalesce($.missing, $.items.first(null), 0)', '$.items.selectMany([$, $]).distinct().toList()',
    '$.items.aggregate($1 * 2 + $2, 0)', 'range(5).select($ * $).where($ mod 2 = 0).toList()',
    '$.doc.items().select($[0] + str($[1])).orderBy($)', '$.items.toSet().union([9].toSet()).len()',
    'generate(1, $ < 50, $ * 2).toList()', 'generateMany(1, switch($ < 8 => [$ * 2, $ * 2 + 1], true => [])).len()',
    '$.items.zipLongest([1], default => 0).select($[0] - $[1])', '$.items.sliceWhere($ > 1).toList()',
    "$.doc.mergeWith({b => [9], z => {q => 1}})", '[$.items, $.nested].flatten().sum(0)',
    "max(1, 2) + min(3, 4) + abs(-5) + pow(2, 3) + round(2.567, 1)", "$.items.select(bitwiseAnd($, 1)).sum(0)",
    "isString($.name) and isList($.items) and isDict($.doc) and not isRegex($.name)",
    "$.items.indexOf(2) + $.items.lastIndexWhere($ >= 0) + $.items.indexWhere($ > 100)",
    "$.items.reverse().skip(1).take(1).toList() + $.items.splitAt(1)[0]",
    "$.recs.a", "$.recs.select($.b + str($.a))", "$.recs.where($.a > 1).toDict($.a, $.b)",
    "call(len, [$.items], {}) + call(sum, [0], {}, $.items)", "$.items.select($ > 1).select(not $).toList()",
    "$.name.len() + $.name.toCharArray().len() + $.name.indexOf('b')", "hex($.n) + '-' + str($.n.repeat(2).toList())",
]


def pool_doc(seed=0):
    base = c09.pool_doc()
    base.update({'recs': [{'a': 1 + seed % 3, 'b': 'x'}, {'a': 2, 'b': 'y'}], 'n': 5 + seed, 'name': 'ab', 'missing': None})
    base['items'] = [3, 1, 2, seed % 4]
    return base


class SchedIter:
    """an input iterator whose every step is a scheduling point"""

    def __init__(self, items, mon):
        self.items = list(items)
        self.i = 0
        self.mon = mon

    def __iter__(self):
        return self

    def __next__(self):
        self.mon.iter_points += 1
        b = self.mon.baton
        if b is not None:
            b.point('iter')
        if self.i >= len(self.items):
            raise StopIteration
        self.i += 1
        return self.items[self.i - 1]


class Mon:
    def __init__(self, rec):
        self.rec = rec
        self.eng = yq.engine({'yaql.limitIterators': 5000, 'yaql.memoryQuota': 5000000})
        self._build_shared()
        self.lp = None
        self.cold = False
        self.cold_eng = None
        self.baton = None
        self.call_points = 0
        self.iter_points = 0
        self.armed = False
        self.violations = []
        self.ctx_owner = {}
        self.shared_ids = {}
        c = self.shared
        while c is not None:
            self.shared_ids[id(c)] = c
            c = c.parent
        self.protected = {}
        self.patches = hooks.Patches()
        self._install()
        self.reach = hooks.Reach()
        self.reach.watch(self.orig_call, 'runner.call')
        self.reach.start()
        self.stmts = {}
        self.lock = threading.Lock()

    def _build_shared(self):
        self.root = yaql.create_context()
        self.shared = self.root.create_child_context()
        self.shared['hostvar'] = (1, 2, yutils.FrozenDict({'k': 'v'}))
        self.shared['n'] = 7
        # raw (unconverted) host containers put into the prepared context by the host
        self.shared['rawlist'] = [1, 2, 3]
        self.shared['rawdict'] = {'k': [1], 'j': 2}

        def host_func(x):
            return x
        self.shared.register_function(host_func, name='hostFunc')

        # host functions whose parameters use the aggregating smart types: one type object is shared by every call
        @yspecs.parameter('x', yqtypes.AnyOf(str, yqtypes.Integer()))
        def host_any(x):
            return [x, type(x).__name__]

        @yspecs.parameter('x', yqtypes.AnyOf(yqtypes.Sequence(), yqtypes.String(), nullable=True))
        @yspecs.parameter('y', yqtypes.NotOfType(str))
        def host_any2(x, y=0):
            return [x, y]

        @yspecs.parameter('x', yqtypes.Chain(yqtypes.NotOfType(bool), yqtypes.AnyOf(int, float)))
        def host_chain(x):
            return x * 2
        self.shared.register_function(host_any, name='hostAny')
        self.shared.register_function(host_any2, name='hostAny2')
        self.shared.register_function(host_chain, name='hostChain')
        # query-level helpers defined in the language itself: def() returns the context that holds the new function,
        # and the host keeps that context as (part of) its prepared context
        for text in ('def(helper, hostFunc($) * 2 + 1)', 'def(add2, hostFunc($1) + $2)', 'def(twice, $.select(helper($)))'):
            nxt = self.eng(text).evaluate(context=self.shared)
            assert isinstance(nxt, yctx.ContextBase), nxt
            self.shared = nxt

    def renew_shared(self):
        """a fresh prepared context (fresh function definitions: nothing in it has been called yet)"""
        self._build_shared()
        self.shared_ids = {}
        c = self.shared
        while c is not None:
            self.shared_ids[id(c)] = c
            c = c.parent
        self.protected_fd = {}
        self._protect_shared()

    def _protect_shared(self):
        c = self.shared
        while c is not None:
            for fds in getattr(c, '_functions', {}).values():
                for fd in fds:
                    self.protected_fd[id(fd)] = fd
                    for p in fd.parameters.values():
                        self.protected_fd[id(p)] = p
            c = c.parent

    def _install(self):
        mon = self
        self.orig_call = yrunner.call

        def call(*a, **kw):
            mon.call_points += 1
            b = mon.baton
            if b is not None:
                if mon.lp is not None and mon.lp.trace is not None:
                    mon.lp.trace.append(('call', 0))
                b.point('call')
            return mon.orig_call(*a, **kw)
        self.patches.set(yrunner, 'call', call)
        orig_init = yctx.Context.__init__

        def ctx_init(self_, *a, **kw):
            if len(mon.ctx_owner) > 200000:
                mon.ctx_owner.clear()      # bounded: forgetting owners loses observations, never invents one
            mon.ctx_owner[id(self_)] = (threading.get_ident(), self_)
            mon.contexts_created += 1
            orig_init(self_, *a, **kw)
        self.contexts_created = 0
        self.patches.set(yctx.Context, '__init__', ctx_init)

        def wrap(name):
            orig = yctx.Context.__dict__[name]

            def patched(self_, *a, **kw):
                if mon.armed:
                    if id(self_) in mon.shared_ids:
                        mon.violations.append(('shared-context-written', '%s%r on a context of the shared chain' % (name, a[:1])))
                    else:
                        owner = mon.ctx_owner.get(id(self_))
                        if owner is not None and owner[1] is self_ and owner[0] != threading.get_ident():
                            mon.violations.append(('cross-thread-context-write', '%s%r on a context created by another thread' % (name, a[:1])))
                return orig(self_, *a, **kw)
            mon.patches.set(yctx.Context, name, patched)
        for name in ('__setitem__', '__delitem__', 'register_function', 'delete_function'):
            wrap(name)

        def make_setattr(kind, orig):
            def _sa(self_, name, value):
                if mon.armed and (id(self_) in mon.protected or (not mon.cold and id(self_) in mon.protected_fd)):
                    mon.violations.append(('shared-object-written', '%s.%s assigned during evaluation' % (type(self_).__name__, name)))
                orig(self_, name, value)
            return _sa
        self.patches.set(yexpr.Expression, '__setattr__', make_setattr('expression', object.__setattr__))
        for cls in (yspecs.FunctionDefinition, yspecs.ParameterDefinition):
            self.patches.set(cls, '__setattr__', make_setattr(cls.__name__, cls.__setattr__))
        self.protected_fd = {}
        self._protect_shared()

    def close(self):
        self.rec.count('hook.call_points', self.call_points)
        self.rec.count('hook.iter_points', self.iter_points)
        self.rec.count('ownership.contexts_created', self.contexts_created)
        self.reach.flush(self.rec)
        self.reach.stop()
        self.patches.restore()

    def stmt(self, text):
        st = self.stmts.get(text)
        if st is None:
            st = self.eng(text)
            stack = [st]
            while stack:
                n = stack.pop()
                if id(n) in self.protected:
                    continue
                self.protected[id(n)] = n
                for a in getattr(n, 'args', ()) or ():
                    if isinstance(a, yexpr.Expression):
                        stack.append(a)
                for attr in ('expr', 'expression', 'source', 'destination', 'path'):
                    a = getattr(n, attr, None)
                    if isinstance(a, yexpr.Expression):
                        stack.append(a)
            self.stmts[text] = st
        return st

    def make_data(self, seed, with_iter):
        shared = getattr(self, 'shared_docs', None)
        if shared is not None and not with_iter:
            return shared[seed % len(shared)]       # the very same host document for every thread that uses this seed
        d = pool_doc(seed)
        if with_iter:
            d['items'] = SchedIter(d['items'], self)
        return d

    def evaluate(self, text, seed, with_iter=False):
        st = self.stmt(text) if self.cold_eng is None else self.cold_eng(text)
        try:
            return ('value', c09.freeze(st.evaluate(data=self.make_data(seed, with_iter),
                                                    context=self.shared.create_child_context())))
        except sched.ScheduleAbort:
            raise
        except Exception as e:
            return ('error', type(e).__name__)


def baseline(mon, jobs):
    return [mon.evaluate(t, s, it) for t, s, it in jobs]


def run_schedule(mon, jobs, chooser):
    b = sched.Baton(chooser)
    mon.baton = b
    if mon.lp is not None:
        mon.lp.baton = b
    mon.armed = True
    mon.violations = []
    mon.ctx_owner.clear()          # ownership is per schedule; keeping every context ever created alive exhausts memory
    try:
        res = b.run([(lambda j=j: mon.evaluate(*j)) for j in jobs])
    finally:
        mon.baton = None
        if mon.lp is not None:
            mon.lp.baton = None
        mon.armed = False
    return res, b


def judge(mon, rec, jobs, base, res, b, sched_desc):
    rp = {'kind': 'schedule', 'jobs': [[t, s, it] for t, s, it in jobs], 'schedule': sched_desc}
    for (t, s, it), want, r in zip(jobs, base, res):
        if r is None or r[0] == 'aborted':
            rec.inconc('schedule aborted by the watchdog for %r' % (t,))
            return
        got = r[1] if r[0] == 'ok' else ('error', 'harness:' + type(r[1]).__name__)
        if got != want:
            rec.violation('concurrent-result-differs-from-sequential',
                          'statement %r (doc seed %d) gave %r under the schedule, %r when run alone; other threads ran %r' % (
                              t, s, got, want, [j[0] for j in jobs if j[0] != t][:3]), rp)
    for kind, detail in mon.violations[:3]:
        rec.violation('%s' % kind, '%s while threads evaluated %r' % (detail, [j[0] for j in jobs]), rp)


def fingerprint(mon):
    return c09.ctx_fingerprint(mon.shared)


def plan(tier, seed):
    thorough = tier == 'thorough'
    shards = []
    for p in range(12):
        shards.append({'name': 'dfs-%d' % p, 'kind': 'dfs', 'pairs': 6 if not thorough else 40,
                       'cap': 400 if not thorough else 5000, 'timeout': 3000})
    for p in range(3 if not thorough else 12):
        shards.append({'name': 'random-%d' % p, 'kind': 'random', 'count': 1000 if not thorough else 9000, 'timeout': 3000})
    for p in range(4 if not thorough else 12):
        shards.append({'name': 'line-%d' % p, 'kind': 'line', 'count': 700 if not thorough else 6000, 'narrow': p % 2 == 0,
                       'timeout': 3000})
    for p in range(6 if not thorough else 14):
        shards.append({'name': 'cold-%d' % p, 'kind': 'cold', 'count': 450 if not thorough else 4000, 'narrow': p % 2 == 0,
                       'timeout': 3000})
    for p in range(3 if not thorough else 8):
        shards.append({'name': 'cold-engine-%d' % p, 'kind': 'cold', 'engine': True, 'count': 350 if not thorough else 3000,
                       'timeout': 3000})
    shards.append({'name': 'free', 'kind': 'free', 'threads': 6, 'iters': 120 if not thorough else 2500, 'timeout': 3000})
    shards.append({'name': 'evalcache', 'kind': 'evalcache', 'threads': 6, 'iters': 3000 if not thorough else 15000, 'timeout': 3000})
    if thorough:
        shards.append({'name': 'yield-injection', 'kind': 'yieldinj', 'threads': 4, 'iters': 150, 'timeout': 3000})
    return shards


RAW = ['$rawlist.insert(0, $.n).len()', '($rawlist + [$.n]).len()', '$rawlist.append($.n).toList()', '$rawdict.set(k, $.n).k',
       '$rawlist.insert(1, $.n)', '$rawdict.k.insert(0, $.n)', '$rawlist.orderBy(-$).first()', '$rawlist.reverse().first() + $.n',
       '$rawdict.mergeWith({k => [$.n]}).k', '$rawlist.replace(0, $.n).first()', '$rawlist.delete(0).len()']
HELPERS = RAW + ['helper($.n)', '$.items.select(helper($)).sum(0)', 'helper(helper($.n))', 'add2($.n, 1)', 'add2($.n, helper(2))',
           'twice($.items).toList()', "hostAny('a')", 'hostAny($.n)', 'hostAny($.name)', 'hostAny2($.items)', "hostAny2($.name, 1)",
           'hostAny2(null, $.n)', 'hostChain($.n)', 'hostChain(2.5)', '[hostAny(1), hostAny(b)]', '$.items.select(hostAny($))',
           "$.recs.select(hostAny($.b))"]
SHORT = HELPERS + ['$.n + 1', '$.name', '$.items.len()', '$hostvar', '$.doc.a', 'hostFunc($.n)', '$.n > 3 and $.n < 9',
         '$.items.first()', '[$.n, $n]', 'let(q => $.n) -> $q', '$.items.sum(0)', 'def(f, $ + 1) -> f($.n)',
         '$.items.select($ + 1).first()', '$.items.orderBy($).first()', "$.name.toUpper()", '$.doc.set(z, $.n).len()']


COLD_POOL = SHORT + ['$.items.distinct().len()', '$.items.sum()', '$.items.toDict($, $ * 2).len()', '$.items.groupBy($ mod 2).len()',
                     "$.items.select(str($)).join(',')", '$.doc.mergeWith({q => $.n}).len()', '$.doc.set(z, 1).len()',
                     'generate(0, $ < 4, $ + 1).len()', "$.name.search('.')", '$.items.select($ * 2).where($ > 2).len()',
                     '$.items.orderBy(-$).first()', '$.items.zip($.items).len()', '$.items.len() + $.items.count()',
                     "$.name.matches('.*')", '$.items.aggregate($1 + $2, 0)', 'max($.n, 3)', "dict(a => $.n).a", '$.items.any($ > 1)',
                     "format('{0}', $.n)", '$.items.skip(1).take(2).toList()', '$.items.indexOf($.n)', "'{0}'.format($.n)",
                     'assert($.n, $ > 0)', 'call(len, [$.items], {})', 'list($.n, 1).len()', 'int($.name.len())',
                     '$.items.slice(2).len()', 'switch($.n > 3 => 1, true => 2)', 'selectCase($.n > 3)', 'coalesce(null, $.n)']


RECURSIVE = ['def(r, switch($ > 0 => r($ - 1) + 1, true => 0)) -> r(30)',
             'def(r, switch($ > 0 => r($ - 1) + 1, true => 0)) -> [r(28), r(3)]',
             'def(fib, switch($ < 2 => $, true => fib($ - 1) + fib($ - 2))) -> fib(9)',
             'def(down, switch($ > 0 => [$] + down($ - 1), true => [])) -> down(25).len()']
COLD_OPTIONS = {'yaql.limitIterators': 12, 'yaql.memoryQuota': 20000, 'yaql.convertSetsToLists': True,
                'yaql.convertTuplesToLists': False}
OPTION_SENSITIVE = ['[1, 2, 2].toSet()', '$.items.toSet()', 'range(20).toList()', 'range(13).select($ + 1).len()', "'x' * 30000",
                    '$.items.take(2)', '[[1, 2].toSet(), 3]', 'range(12).toList().len()', '{a => [1].toSet()}', '$.items.select([$]).toList()',
                    'list(1, 2).toSet().len()', "'ab' * 5", 'range(5).toList()']


def run_shard(spec, rec):
    mon = Mon(rec)
    try:
        rng = rng_for(spec['seed'], 'c18', spec['name'])
        rec.count('pool.statements', len(POOL) + len(SHORT))
        fp0 = fingerprint(mon)
        mon.fp_changed = False
        globals()['_' + spec['kind']](spec, mon, rec, rng)
        if spec['kind'] == 'cold':
            changed = mon.fp_changed        # compared per schedule: each one has its own prepared context
        else:
            changed = fingerprint(mon) != fp0
        if changed:
            rec.violation('shared-context-changed', 'the fingerprint of the shared prepared context changed during shard %s' % spec['name'],
                          {'kind': 'fingerprint'})
        rec.count('fingerprint.compared')
    finally:
        mon.close()


def _dfs(spec, mon, rec, rng):
    for pi in range(spec['pairs']):
        same = rng.random() < 0.4
        t1 = rng.choice(SHORT)
        t2 = t1 if same else rng.choice(SHORT)
        jobs = [(t1, rng.randrange(4), rng.random() < 0.2), (t2, rng.randrange(4), rng.random() < 0.2)]
        base = baseline(mon, jobs)
        prefix = []
        n = 0
        complete = True
        while prefix is not None:
            ch = sched.DFSChooser(prefix)
            res, b = run_schedule(mon, jobs, ch)
            n += 1
            rec.count('sched.schedules')
            if b.switches:
                rec.count('sched.with_switch')
            rec.case((tuple(j[0] for j in jobs), tuple(j[1] for j in jobs), tuple(t[0] for t in ch.trace)), nontrivial=b.switches > 0)
            judge(mon, rec, jobs, base, res, b, {'mode': 'dfs', 'prefix': [t[0] for t in ch.trace]})
            if b.stuck:
                complete = False
                break
            prefix = ch.next_prefix()
            if n >= spec['cap'] and prefix is not None:
                complete = False
                rec.count('sched.pairs_capped')
                break
        if complete:
            rec.count('sched.pairs_exhausted')
        if pi % 5 == 0:
            rec.sample({'threads': [j[0] for j in jobs], 'schedules_executed': n, 'exhausted': complete,
                        'points_per_schedule': b.points})


def _random(spec, rec_mon, rec, rng):
    mon = rec_mon
    pool = POOL + SHORT
    for i in range(spec['count']):
        k = rng.choice((2, 2, 3, 4))
        if rng.random() < 0.3:
            t = rng.choice(pool)
            jobs = [(t, rng.randrange(4), rng.random() < 0.3) for _ in range(k)]
        else:
            jobs = [(rng.choice(pool), rng.randrange(4), rng.random() < 0.3) for _ in range(k)]
        base = baseline(mon, jobs)
        ch = sched.RandomChooser(rng, switch_prob=rng.choice((0.02, 0.05, 0.2)), max_preempt=rng.choice((1, 2, 3, 6, None)))
        res, b = run_schedule(mon, jobs, ch)
        rec.count('sched.schedules')
        if b.switches:
            rec.count('sched.with_switch')
        rec.case((tuple(j[0] for j in jobs), tuple(j[1] for j in jobs), tuple(ch.trace[:200])), nontrivial=b.switches > 0)
        judge(mon, rec, jobs, base, res, b, {'mode': 'replay', 'seq': ch.trace[:2000]})
        if i % 300 == 0:
            rec.sample({'threads': [j[0] for j in jobs], 'scheduling_points': b.points, 'switches': b.switches})


LINE_FAMILIES = [RAW, [h for h in HELPERS if 'helper' in h or 'add2' in h or 'twice' in h], [h for h in HELPERS if 'hostAny(' in h], [h for h in HELPERS if 'hostAny2' in h or 'hostChain' in h],
                 HELPERS[6:]]


def _line(spec, mon, rec, rng):
    """schedules whose scheduling points are the statement starts (LINE events) of the modules that bind, check and
    convert arguments and look names up: windows inside one dispatch, which the call-level points of the other
    modes cannot split.  Half of the schedules place ONE preemption uniformly over the points of the first thread
    (every window of w statements is hit with probability w/N), the rest are random with bounded preemptions."""
    from yaql.language import contexts, expressions, runner, specs, yaqltypes
    narrow = spec.get('narrow')
    mods = (yaqltypes, specs, yutils) if narrow else (yaqltypes, specs, runner, contexts, expressions, yutils)
    mon.lp = hooks.LinePoints(hooks.module_codes(*mods)).start()
    solo_points = {}
    try:
        pool = SHORT
        for i in range(spec['count']):
            # every third schedule: the threads are handed the same host document objects (input conversion of one
            # document by several evaluations at once)
            mon.shared_docs = [pool_doc(s_) for s_ in range(2)] if i % 3 == 2 else None
            if mon.shared_docs is not None:
                rec.count('sched.line_shared_documents')
            k = rng.choice((2, 2, 3))
            if rng.random() < 0.6:
                fam = rng.choice(LINE_FAMILIES)
                jobs = [(rng.choice(fam), rng.randrange(4), False) for _ in range(k)]
            else:
                jobs = [(rng.choice(pool), rng.randrange(4), False) for _ in range(k)]
            base = baseline(mon, jobs)
            if i % 2 == 0:
                key = jobs[0][:2]
                if key not in solo_points:
                    _, b1 = run_schedule(mon, [jobs[0]], sched.ReplayChooser([0] * 10))
                    solo_points[key] = b1.points
                at = rng.randrange(1, max(solo_points[key], 2))
                order = list(range(1, k))
                rng.shuffle(order)
                seq = [0] * (at + 1) + [order[0]] * 1000000
                ch = sched.ReplayChooser(seq)
                desc = {'mode': 'replay', 'seq': None, 'preempt_at': at, 'then': order[0], 'line': True, 'narrow': bool(narrow)}
                rec.count('sched.line_single_preemption')
            else:
                ch = sched.RandomChooser(rng, switch_prob=rng.choice((0.003, 0.01, 0.03, 0.1)), max_preempt=rng.choice((1, 2, 4, 8, None)))
                desc = None
            res, b = run_schedule(mon, jobs, ch)
            if desc is None:
                desc = {'mode': 'replay', 'seq': ch.trace[:20000], 'line': True, 'narrow': bool(narrow)}
            rec.count('sched.schedules')
            rec.count('sched.line_schedules')
            if b.switches:
                rec.count('sched.with_switch')
                rec.count('sched.line_with_switch')
            rec.case((tuple(j[0] for j in jobs), tuple(j[1] for j in jobs), repr(desc.get('preempt_at')) + repr(ch.trace[:300] if desc['seq'] else '')),
                     nontrivial=b.switches > 0)
            judge(mon, rec, jobs, base, res, b, desc)
            if i % 300 == 0:
                rec.sample({'mode': 'line-level', 'threads': [j[0] for j in jobs], 'scheduling_points': b.points, 'switches': b.switches})
    finally:
        mon.shared_docs = None
        rec.count('hook.line_points', mon.lp.count)
        mon.lp.stop()
        mon.lp = None


def _cold(spec, mon, rec, rng):
    """cold-start schedules: every schedule runs in children of a prepared context built just before it, so each
    function definition, parameter type and context table is used for the first time by the racing threads
    themselves (what a host sees right after start-up).  The baseline comes from another fresh context.  One
    preemption is placed uniformly over the statement starts the first thread executes in the modules that bind and
    resolve calls; the second thread then runs to completion inside that window.  Only results and context writes
    are judged here: a definition may legitimately fill a cache on first use, as long as nobody observes it half
    filled."""
    from yaql.language import contexts, factory, runner, specs, yaqltypes
    mods = (specs,) if spec.get('narrow') else (specs, yaqltypes, contexts, runner, yutils, factory)
    mon.lp = hooks.LinePoints(hooks.module_codes(*mods)).start()
    mon.cold = True
    cold_engine = bool(spec.get('engine'))

    def new_engine():
        # "engine" shards: a fresh copy of the engine with options of its own per schedule too (what engine(text, options)
        # does for every statement); both threads parse and evaluate with it
        if cold_engine:
            mon.cold_eng = mon.eng.copy(COLD_OPTIONS)
    solo = {}
    base_of = {}

    def first_use_points(job):
        """the points of `job` run alone in a fresh prepared context, and those among them that a second run in the
        same (now used) context does not pass: statements that only execute on first use"""
        import collections
        mon.renew_shared()
        new_engine()
        mon.lp.trace = []
        run_schedule(mon, [job], sched.ReplayChooser([0] * 10))
        cold_trace = mon.lp.trace
        mon.lp.trace = []
        run_schedule(mon, [job], sched.ReplayChooser([0] * 10))
        warm = collections.Counter(mon.lp.trace)
        mon.lp.trace = None
        cold = collections.Counter(cold_trace)
        extra = {k_ for k_ in cold if cold[k_] > warm.get(k_, 0)}
        return len(cold_trace), [j for j, k_ in enumerate(cold_trace) if k_ in extra]
    try:
        for i in range(spec['count']):
            k = 2
            if rng.random() < 0.7:
                t = rng.choice(COLD_POOL)
                jobs = [(t, rng.randrange(4), False), (t, rng.randrange(4), False)]      # the same functions, cold
            else:
                fam = rng.choice(LINE_FAMILIES + [SHORT])
                jobs = [(rng.choice(fam), rng.randrange(4), False) for _ in range(k)]
            if cold_engine and rng.random() < 0.6:
                t = rng.choice(OPTION_SENSITIVE)
                jobs = [(t, rng.randrange(4), False), (rng.choice(OPTION_SENSITIVE), rng.randrange(4), False)]
            for j in jobs:
                if j not in base_of:
                    mon.renew_shared()
                    new_engine()
                    base_of[j] = mon.evaluate(*j)       # alone, in its own fresh prepared context (and engine copy)
            base = [base_of[j] for j in jobs]
            key = jobs[0][:2]
            if key not in solo:
                solo[key] = first_use_points(jobs[0])
                rec.count('cold.first_use_only_points', len(solo[key][1]))
                rec.count('cold.points_traced', solo[key][0])
            mon.renew_shared()
            new_engine()
            npoints, first_only = solo[key]
            if first_only and rng.random() < 0.7:
                at = max(1, rng.choice(first_only) + rng.choice((0, 0, 1)))
                rec.count('sched.cold_directed_at_first_use_statement')
            else:
                at = rng.randrange(1, max(npoints, 2))
            ch = sched.ReplayChooser([0] * (at + 1) + [1] * 1000000)
            desc = {'mode': 'replay', 'seq': None, 'preempt_at': at, 'then': 1, 'line': True, 'cold': True,
                    'narrow': bool(spec.get('narrow')), 'engine': cold_engine}
            fp = fingerprint(mon)
            res, b = run_schedule(mon, jobs, ch)
            if fingerprint(mon) != fp:
                mon.fp_changed = True
            rec.count('fingerprint.compared')
            rec.count('sched.schedules')
            rec.count('sched.cold_schedules')
            if cold_engine:
                rec.count('sched.cold_engine_schedules')
            if b.switches:
                rec.count('sched.with_switch')
                rec.count('sched.cold_with_switch')
            rec.case(('cold', jobs[0][0], jobs[1][0], jobs[0][1], jobs[1][1], at), nontrivial=b.switches > 0)
            judge(mon, rec, jobs, base, res, b, desc)
            if i % 200 == 0:
                rec.sample({'mode': 'cold-start line-level', 'threads': [j[0] for j in jobs], 'scheduling_points': b.points,
                            'preempt_at': at, 'switches': b.switches})
    finally:
        mon.cold = False
        mon.cold_eng = None
        rec.count('hook.line_points', mon.lp.count)
        mon.lp.stop()
        mon.lp = None
        mon.renew_shared()


def _threads(mon, rec, spec, rng, worker_eval, label, count_key):
    pool = [p for p in POOL + SHORT]
    plans = []
    for _ in range(spec['threads']):
        plans.append([(rng.choice(pool), rng.randrange(4)) for _ in range(spec['iters'])])
    # hot statements shared by all threads
    for p in plans:
        for i in range(0, len(p), 3):
            p[i] = (pool[i % 7], i % 4)
        # ... among them a deeply recursive def()-made function, which every thread starts with and comes back to: the
        # evaluations are then deep inside their recursions at the same time
        for i in range(0, len(p), 10):
            p[i] = (RECURSIVE[(i // 10) % len(RECURSIVE)], i % 4)
    wanted = {}
    for p in plans:
        for t, s in p:
            if (t, s) not in wanted:
                wanted[(t, s)] = mon.evaluate(t, s)
    mismatches = []
    done = [0]
    start = threading.Barrier(spec['threads'])
    mon.armed = True
    mon.violations = []

    def worker(plan):
        start.wait()
        n = 0
        for t, s in plan:
            got = worker_eval(t, s)
            n += 1
            if got != wanted[(t, s)]:
                with mon.lock:
                    mismatches.append((t, s, got))
        with mon.lock:
            done[0] += n
    old = sys.getswitchinterval()
    sys.setswitchinterval(1e-6)
    try:
        ths = [threading.Thread(target=worker, args=(p,), daemon=True) for p in plans]
        for t in ths:
            t.start()
        for t in ths:
            t.join(900)
            if t.is_alive():
                rec.inconc('%s thread did not finish within its watchdog' % label)
    finally:
        sys.setswitchinterval(old)
        mon.armed = False
    rec.count(count_key, done[0])
    rec.case((label, spec['seed'], spec['threads'], spec['iters']), nontrivial=True, n=done[0])
    rec.sample({'mode': label, 'threads': spec['threads'], 'evaluations': done[0], 'switch_interval': 1e-6,
                'distinct_statements': len({t for p in plans for t, s in p})})
    for t, s, got in mismatches[:5]:
        rec.violation('concurrent-result-differs-from-sequential:%s' % label,
                      'statement %r (doc seed %d) gave %r in a free-running thread, %r alone' % (t, s, got, wanted[(t, s)]),
                      {'kind': label})
    for kind, detail in mon.violations[:3]:
        rec.violation(kind, '%s in %s mode' % (detail, label), {'kind': label})


def _free(spec, mon, rec, rng):
    _threads(mon, rec, spec, rng, lambda t, s: mon.evaluate(t, s), 'free-running', 'free.evaluations')


def _evalcache(spec, mon, rec, rng):
    """module-level yaql.eval: one cached engine, an expression cache and a default context shared by all callers"""
    def ev(t, s):
        try:
            return ('value', c09.freeze(yaql.eval(t, data=pool_doc(s))))
        except Exception as e:
            return ('error', type(e).__name__)
    pool = [p for p in POOL + SHORT if '$hostvar' not in p and 'hostFunc' not in p and '$n' not in p and all(
        h not in p for h in ('helper', 'add2', 'twice', 'hostAny', 'hostChain', 'rawlist', 'rawdict'))]
    # far more distinct texts than any cache is likely to hold at once: half of the threads stream never-seen texts
    # (whatever the cache does when it is full happens again and again), the others keep evaluating a few cheap hot
    # texts (and are, most of the time, somewhere between looking the text up and evaluating it)
    many = ['$.n + %d' % i for i in range(150)] + ['[%d, $.n].len() + %d' % (i, i) for i in range(150)]
    hot = ['$.n', '$.name', '$.n + 1', '$.items.len()']
    plans = []
    for th in range(spec['threads']):
        if th % 2 == 0:
            plans.append([('$.n + %d' % (100000 * (th + 1) + i) if i % 4 else rng.choice(many), rng.randrange(4)) for i in range(spec['iters'])])
        else:
            plans.append([(rng.choice(hot) if i % 10 else rng.choice(pool), rng.randrange(4)) for i in range(spec['iters'] * 4)])
    rec.count('evalcache.distinct_texts', len({t for p in plans for t, s_ in p}))
    wanted = {}
    ref_eng = yq.engine()
    ref_ctx = yaql.create_context()
    for p in plans:
        for t, s in p:
            if (t, s) not in wanted:
                try:
                    wanted[(t, s)] = ('value', c09.freeze(ref_eng(t).evaluate(data=pool_doc(s), context=ref_ctx.create_child_context())))
                except Exception as e:
                    wanted[(t, s)] = ('error', type(e).__name__)
    mism = []
    done = [0]
    start = threading.Barrier(spec['threads'])

    def worker(plan):
        start.wait()
        for t, s in plan:
            got = ev(t, s)
            with mon.lock:
                done[0] += 1
                if got != wanted[(t, s)]:
                    mism.append((t, s, got))
    old = sys.getswitchinterval()
    sys.setswitchinterval(1e-6)
    try:
        ths = [threading.Thread(target=worker, args=(p,), daemon=True) for p in plans]
        for t in ths:
            t.start()
        for t in ths:
            t.join(600)
    finally:
        sys.setswitchinterval(old)
    rec.count('evalcache.evaluations', done[0])
    rec.case(('evalcache', spec['seed']), nontrivial=True, n=done[0])
    for t, s, got in mism[:5]:
        rec.violation('concurrent-result-differs-from-sequential:yaql.eval', 'yaql.eval(%r) gave %r, a private engine/context gives %r' % (
            t, got, wanted[(t, s)]), {'kind': 'evalcache'})
    # the cached trees must be the trees of their own texts
    for t, st in list(yaql._cached_expressions.items()):
        if yq.canon_tree(st.expression) != yq.canon_tree(ref_eng(t).expression):
            rec.violation('yaql.eval-cache-holds-foreign-tree', 'cache entry for %r holds another tree' % t, {'kind': 'evalcache'})


def _yieldinj(spec, mon, rec, rng):
    """LINE-level yield injection in the anchored modules: sleep(0) at statement starts with a small probability"""
    import random
    import time
    from yaql.language import expressions, runner, specs, contexts
    from yaql.standard_library import queries
    mods = (expressions, runner, specs, contexts, queries, yutils)
    files = {m.__file__ for m in mods}
    monm = sys.monitoring
    TOOL2 = 3
    monm.use_tool_id(TOOL2, 'vmon-yield')
    r = random.Random(spec['seed'])
    injected = [0]

    def on_line(code, line):
        if code.co_filename not in files:
            return monm.DISABLE
        if r.random() < 0.02:
            injected[0] += 1
            time.sleep(0)
    monm.register_callback(TOOL2, monm.events.LINE, on_line)
    monm.set_events(TOOL2, monm.events.LINE)
    try:
        _threads(mon, rec, spec, rng, lambda t, s: mon.evaluate(t, s), 'yield-injection', 'free.evaluations')
    finally:
        monm.set_events(TOOL2, 0)
        monm.register_callback(TOOL2, monm.events.LINE, None)
        monm.free_tool_id(TOOL2)
    rec.count('yield.injected', injected[0])


def replay(data, rec):
    mon = Mon(rec)
    try:
        if data['kind'] != 'schedule':
            print('free-running / cache modes are statistical; re-run the check')
            return
        jobs = [tuple(j) for j in data['jobs']]
        sc = data['schedule']
        if sc.get('cold'):
            mon.renew_shared()
            mon.cold = True
            if sc.get('engine'):
                mon.cold_eng = mon.eng.copy(COLD_OPTIONS)
        base = baseline(mon, jobs)
        if sc.get('cold'):
            mon.renew_shared()
            if sc.get('engine'):
                mon.cold_eng = mon.eng.copy(COLD_OPTIONS)
        if sc.get('preempt_at') is not None:
            sc['seq'] = [0] * (sc['preempt_at'] + 1) + [sc['then']] * 1000000
        ch = sched.DFSChooser(sc['prefix']) if sc['mode'] == 'dfs' else sched.ReplayChooser(sc['seq'])
        if sc.get('line'):
            from yaql.language import contexts, expressions, runner, specs, yaqltypes
            mods = (yaqltypes, specs, yutils) if sc.get('narrow') else (yaqltypes, specs, runner, contexts, expressions, yutils)
            if sc.get('cold'):
                from yaql.language import factory
                mods = (specs,) if sc.get('narrow') else (specs, yaqltypes, contexts, runner, yutils, factory)
            mon.lp = hooks.LinePoints(hooks.module_codes(*mods)).start()
        try:
            res, b = run_schedule(mon, jobs, ch)
        finally:
            if mon.lp is not None:
                mon.lp.stop()
                mon.lp = None
        for j, w, r in zip(jobs, base, res):
            print('  %r alone -> %r ; under the schedule -> %r' % (j[0], w, r))
        judge(mon, rec, jobs, base, res, b, sc)
    finally:
        mon.close()
