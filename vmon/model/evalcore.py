"""Reference interpreter for the core language fragment (C04), written from
doc/source/language_reference.rst: lexically scoped evaluation over harness
ASTs.  Every node renders itself to yaql text and evaluates itself against an
environment chain; the model never touches yaql's parser or runtime.
"""


class ModelError(Exception):
    def __init__(self, kind='error'):
        Exception.__init__(self, kind)
        self.kind = kind


class Env:
    def __init__(self, parent=None):
        self.parent = parent
        self.vars = {}
        self.funcs = {}

    @staticmethod
    def norm(name):
        if not name.startswith('$'):
            name = '$' + name
        return '$1' if name == '$' else name

    def get(self, name):
        k = self.norm(name)
        e = self
        while e is not None:
            if k in e.vars:
                return e.vars[k]
            e = e.parent
        return None                      # unknown variables are null

    def set(self, name, value):
        self.vars[self.norm(name)] = value

    def func(self, name):
        e = self
        while e is not None:
            if name in e.funcs:
                return e.funcs[name]
            e = e.parent
        return None

    def child(self):
        return Env(self)


class Node:
    def text(self):
        raise NotImplementedError

    def ev(self, env):
        raise NotImplementedError

    def p(self):
        """text, parenthesised when used as an operand/receiver"""
        return self.text()


class Lit(Node):
    def __init__(self, v):
        self.v = v

    def text(self):
        v = self.v
        if v is None:
            return 'null'
        if v is True:
            return 'true'
        if v is False:
            return 'false'
        if isinstance(v, int):
            return str(v)
        return "'" + v + "'"

    def p(self):
        return '(%s)' % self.text() if isinstance(self.v, int) and not isinstance(self.v, bool) and self.v < 0 else self.text()

    def ev(self, env):
        return self.v


class Var(Node):
    def __init__(self, name):
        self.name = name           # '$', '$1', '$x'

    def text(self):
        return self.name

    def ev(self, env):
        return env.get(self.name)


class ListE(Node):
    def __init__(self, items):
        self.items = items

    def text(self):
        return '[%s]' % ', '.join(i.text() for i in self.items)

    def ev(self, env):
        return [i.ev(env) for i in self.items]


class MapE(Node):
    def __init__(self, pairs):
        self.pairs = pairs         # (key string, node)

    def text(self):
        return '{%s}' % ', '.join('%s => %s' % (k, v.text()) for k, v in self.pairs)

    def ev(self, env):
        return {k: v.ev(env) for k, v in self.pairs}


class Bin(Node):
    def __init__(self, op, a, b):
        self.op, self.a, self.b = op, a, b

    def text(self):
        return '(%s %s %s)' % (self.a.p(), self.op, self.b.p())

    def ev(self, env):
        op = self.op
        if op == 'and':
            return self.a.ev(env) and self.b.ev(env)
        if op == 'or':
            return self.a.ev(env) or self.b.ev(env)
        return binop(op, self.a.ev(env), self.b.ev(env))


def binop(op, a, b):
    if True:
        if op == '=':
            return a == b
        if op == '!=':
            return a != b
        if op in ('+', '*', '-', '>', '<', '>=', '<='):
            ok_num = all(isinstance(x, int) and not isinstance(x, bool) for x in (a, b))
            if op == '+' and isinstance(a, str) and isinstance(b, str):
                return a + b
            if op == '+' and isinstance(a, list) and isinstance(b, list):
                return a + b
            if op in ('>', '<', '>=', '<=') and (a is None or b is None):
                ra, rb = (0 if a is None else 1), (0 if b is None else 1)
                return {'>': ra > rb, '<': ra < rb, '>=': ra >= rb, '<=': ra <= rb}[op]
            if op in ('>', '<', '>=', '<=') and isinstance(a, str) and isinstance(b, str):
                return {'>': a > b, '<': a < b, '>=': a >= b, '<=': a <= b}[op]
            if not ok_num:
                raise ModelError('no-match')
            return {'+': lambda: a + b, '*': lambda: a * b, '-': lambda: a - b, '>': lambda: a > b, '<': lambda: a < b,
                    '>=': lambda: a >= b, '<=': lambda: a <= b}[op]()
        raise ValueError(op)


class Not(Node):
    def __init__(self, a):
        self.a = a

    def text(self):
        return '(not %s)' % self.a.p()

    def ev(self, env):
        return not self.a.ev(env)


class Index(Node):
    def __init__(self, a, i, default=None):
        self.a, self.i, self.default = a, i, default

    def text(self):
        if self.default is not None:
            return '%s[%s, %s]' % (self.a.p(), self.i.text(), self.default.text())
        return '%s[%s]' % (self.a.p(), self.i.text())

    def ev(self, env):
        a, i = self.a.ev(env), self.i.ev(env)
        if isinstance(a, list):
            if self.default is not None or not isinstance(i, int) or isinstance(i, bool):
                raise ModelError('no-match')
            try:
                return a[i]
            except IndexError:
                raise ModelError('IndexError')
        if isinstance(a, dict):
            if self.default is not None:
                return a.get(i, self.default.ev(env))
            if i not in a:
                raise ModelError('KeyError')
            return a[i]
        raise ModelError('no-match')


class Member(Node):
    def __init__(self, a, name, elvis=False):
        self.a, self.name, self.elvis = a, name, elvis

    def text(self):
        return '%s%s%s' % (self.a.p(), '?.' if self.elvis else '.', self.name)

    def ev(self, env):
        v = self.a.ev(env)
        if self.elvis and v is None:      # `?.` skips the access only for null, not for other falsy receivers
            return None
        return member(v, self.name)


def member(v, name):
    if isinstance(v, dict):
        if name not in v:
            raise ModelError('KeyError')
        return v[name]
    if isinstance(v, list):
        return [member(x, name) for x in v]     # `.name` on a collection maps over its elements
    raise ModelError('no-match')


class Lam:
    """an unevaluated argument: closes over the environment of its call site"""

    def __init__(self, body):
        self.body = body

    def text(self):
        return self.body.text()

    def bind(self, env):
        def call(*args):
            e = env.child()
            for i, a in enumerate(args):
                e.set('$%d' % (i + 1), a)
            return self.body.ev(e)
        return call


class Call(Node):
    """library function / method call; recv=None for function form"""

    def __init__(self, name, args, recv=None, kwargs=None, elvis=False):
        self.name, self.args, self.recv = name, args, recv
        self.kwargs = kwargs or []          # (name, node) for calls of user-defined functions
        self.elvis = elvis                  # recv?.name(args): null receiver => null, arguments not evaluated

    def text(self):
        a = ', '.join([x.text() for x in self.args] + ['%s => %s' % (k, v.text()) for k, v in self.kwargs])
        if self.recv is not None:
            return '%s%s%s(%s)' % (self.recv.p(), '?.' if self.elvis else '.', self.name, a)
        return '%s(%s)' % (self.name, a)

    def ev(self, env):
        user = env.func(self.name) if self.recv is None else None
        if user is not None:
            args = [a.ev(env) for a in self.args]      # eager arguments in the caller's environment
            kw = {k: v.ev(env) for k, v in self.kwargs}
            return user(*args, **kw)
        vals = []
        if self.recv is not None:
            rv = self.recv.ev(env)
            if self.elvis and rv is None:
                return None
            vals.append(rv)
        for a in self.args:
            vals.append(a.bind(env) if isinstance(a, Lam) else a.ev(env))
        f = LIB.get(self.name)
        if f is None:
            raise ModelError('unknown-function')
        return f(*vals)


def _need_list(c):
    if not isinstance(c, list):
        raise ModelError('no-match')
    return c


def _need_int(n):
    if not isinstance(n, int) or isinstance(n, bool):
        raise ModelError('no-match')
    return n


def _lib_sum(c, initial=None):
    acc = initial
    first = initial is None
    for x in _need_list(c):
        if first:
            acc = x
            first = False
        else:
            acc = binop('+', acc, x)
    if first:
        raise ModelError('empty')
    return acc


def _first(c, *default):
    c = _need_list(c)
    if c:
        return c[0]
    if default:
        return default[0]
    raise ModelError('StopIteration')


def _get(d, k, default=None):
    if not isinstance(d, dict):
        raise ModelError('no-match')
    return d.get(k, default)


def _set(d, k, v):
    if not isinstance(d, dict):
        raise ModelError('no-match')
    r = dict(d)
    r[k] = v
    return r


def _select_many(c, f):
    out = []
    for x in _need_list(c):
        r = f(x)
        if isinstance(r, list):
            out.extend(r)
        else:
            out.append(r)
    return out


def _len(c):
    if isinstance(c, (list, dict, str)):
        return len(c)
    raise ModelError('no-match')


def _coalesce(*fs):
    for f in fs:
        v = f()
        if v is not None:
            return v
    return None


LIB = {
    'select': lambda c, f: [f(x) for x in _need_list(c)],
    'where': lambda c, f: [x for x in _need_list(c) if f(x)],
    'take': lambda c, n: _need_list(c)[:_need_int(n)] if n >= 0 else _raise(),
    'skip': lambda c, n: _need_list(c)[_need_int(n):] if n >= 0 else _raise(),
    'first': _first,
    'len': _len,
    'sum': _lib_sum,
    'any': lambda c, f=None: any((f(x) if f else True) for x in _need_list(c)),
    'all': lambda c, f=None: all((f(x) if f else bool(x)) for x in _need_list(c)),
    'get': _get,
    'set': _set,
    'selectMany': _select_many,
    'coalesce': _coalesce,
    'toList': lambda c: list(_need_list(c)),
}


def _raise():
    raise ModelError('error')


class Switch(Node):
    def __init__(self, cases):
        self.cases = cases          # (cond node, value node)

    def text(self):
        return 'switch(%s)' % ', '.join('%s => %s' % (c.text(), v.text()) for c, v in self.cases)

    def ev(self, env):
        for c, v in self.cases:
            if c.ev(env):
                return v.ev(env)
        return None


class Coalesce(Node):
    def __init__(self, items):
        self.items = items

    def text(self):
        return 'coalesce(%s)' % ', '.join(i.text() for i in self.items)

    def ev(self, env):
        for i in self.items:
            v = i.ev(env)
            if v is not None:
                return v
        return None


class Let(Node):
    """let(pos..., name => value...) -> body"""

    def __init__(self, pos, named, body):
        self.pos, self.named, self.body = pos, named, body

    def text(self):
        args = [p.text() for p in self.pos] + ['%s => %s' % (k, v.text()) for k, v in self.named]
        return '(let(%s) -> %s)' % (', '.join(args), self.body.text())

    def ev(self, env):
        e = env.child()
        vals = [p.ev(env) for p in self.pos]
        named = [(k, v.ev(env)) for k, v in self.named]
        for i, v in enumerate(vals):
            e.set('$%d' % (i + 1), v)
        for k, v in named:
            e.set('$' + k, v)
        return self.body.ev(e)


class With(Node):
    def __init__(self, pos, body):
        self.pos, self.body = pos, body

    def text(self):
        return '(with(%s) -> %s)' % (', '.join(p.text() for p in self.pos), self.body.text())

    def ev(self, env):
        e = env.child()
        for i, p in enumerate([p.ev(env) for p in self.pos]):
            e.set('$%d' % (i + 1), p)
        return self.body.ev(e)


class Unpack(Node):
    def __init__(self, seq, names, body):
        self.seq, self.names, self.body = seq, names, body

    def text(self):
        return '(%s.unpack(%s) -> %s)' % (self.seq.p(), ', '.join(self.names), self.body.text())

    def ev(self, env):
        seq = _need_list(self.seq.ev(env))
        e = env.child()
        if self.names:
            if len(seq) != len(self.names):
                raise ModelError('ValueError')
            for n, v in zip(self.names, seq):
                e.set('$' + n, v)
        else:
            for i, v in enumerate(seq):
                e.set('$%d' % (i + 1), v)
        return self.body.ev(e)


class Def(Node):
    """def(name, lambda body) -> body: name is bound to a closure over the defining environment"""

    def __init__(self, name, fbody, body):
        self.name, self.fbody, self.body = name, fbody, body

    def text(self):
        return '(def(%s, %s) -> %s)' % (self.name, self.fbody.text(), self.body.text())

    def ev(self, env):
        e = env.child()
        fbody = self.fbody

        def closure(*args, **kw):
            ce = e.child()                       # a fresh scope per invocation: nothing survives between calls
            for i, a in enumerate(args):
                ce.set('$%d' % (i + 1), a)
            for k, v in kw.items():
                ce.set('$' + k, v)
            return fbody.ev(ce)
        e.funcs[self.name] = closure
        return self.body.ev(e)


def evaluate(node, doc, variables=None):
    env = Env()
    env.set('$', doc)
    for k, v in (variables or {}).items():
        env.set('$' + k, v)
    return node.ev(env.child())


def selftest():
    doc = {'items': [1, 2, 3], 'n': 5}
    x = Let([], [('x', Lit(3))], Def('f', Bin('+', Var('$'), Var('$x')), Let([], [('x', Lit(10))], Call('f', [Lit(1)]))))
    assert evaluate(x, doc) == 4, evaluate(x, doc)
    y = Call('select', [Lam(Bin('*', Var('$'), Member(Var('$d'), 'n')))], recv=Member(Var('$'), 'items'))
    assert evaluate(y, doc, {'d': doc}) == [5, 10, 15]
    z = ListE([Let([], [('x', Lit(1))], Var('$x')), Coalesce([Var('$x'), Lit(0)])])
    assert evaluate(z, doc) == [1, 0]
    w = With([Lit(7)], Var('$'))
    assert evaluate(w, doc) == 7
