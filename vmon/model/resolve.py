"""Reference model of overload resolution (C05), written from
extending_yaql.rst "Function resolution rules" and the property statement.

Input: layers (nearest first) of overload descriptions (vmon.families
OverloadSpec), per-layer exclusivity, and a call.  Output:
  ('ran', tag, bound) | ('error', kind)   with kind in
  unknown | no-match | ambiguous | translation
plus 'evaluated': whether the eager arguments get evaluated (once) or not.
"""
from vmon import families as fam

SKIP = 'skip'


class CallSpec:
    def __init__(self, args, kwargs=None, method=False, bad_keyword=False):
        self.args = list(args)        # value keys ('a','b',...), SKIP, or 'const:int' / 'const:str' / 'const:null'
        self.kwargs = dict(kwargs or {})   # name -> value key
        self.method = method          # first arg is the receiver
        self.bad_keyword = bad_keyword     # one `$x => v` argument (not a keyword): translation error

    def desc(self):
        return {'args': self.args, 'kwargs': self.kwargs, 'method': self.method, 'bad_keyword': self.bad_keyword,
                'limit': getattr(self, 'limit', False)}


def is_const(a):
    return isinstance(a, str) and a.startswith('const:')


def const_value(a):
    return {'const:int': 5, 'const:str': 'lit', 'const:null': None}[a]


def value_matches(vkey, p):
    """type filter for an evaluated value / constant against a parameter"""
    if p.lazy:
        return True
    if is_const(vkey):
        v = const_value(vkey)
        if v is None:
            return p.nullable
        return fam.accepts(p.tname, v)
    if vkey == 'n':
        return p.nullable
    return fam.instance_of(vkey, p.tname)


def default_matches(p):
    if p.lazy:
        return True
    if p.default is None:
        return p.nullable
    return fam.accepts(p.tname, p.default)


class Mapping:
    """which parameter every argument of the call is bound to, for one candidate"""

    def __init__(self):
        self.pos = []      # per positional argument index: ParamSpec
        self.kw = {}       # keyword name -> ParamSpec
        self.lazy = set()


def syntactic_map(o, call):
    """rule 3: can the overload be called by the given syntax?  -> Mapping or None"""
    visible = [p for p in o.params if not p.hidden]
    positional = [p for p in visible if p.kind == 'pos']
    varargs = next((p for p in visible if p.kind == 'varargs'), None)
    kwonly = [p for p in visible if p.kind == 'kwonly']
    kwargs_p = next((p for p in visible if p.kind == 'kwargs'), None)
    args = call.args
    remaining = dict(call.kwargs)
    m = Mapping()
    m.pos = [varargs] * len(args)
    for i, p in enumerate(positional):
        if i < len(args) and args[i] != SKIP:
            if p.name in remaining:
                return None
            m.pos[i] = p
        elif p.name in remaining:
            m.kw[p.name] = p
            del remaining[p.name]
        elif not p.has_default:
            return None
        elif i < len(args):
            m.pos[i] = p          # skipped slot: bound to the default
    for p in kwonly:
        if p.name in remaining:
            m.kw[p.name] = p
            del remaining[p.name]
        elif not p.has_default:
            return None
    if remaining:
        if kwargs_p is None:
            return None
        for k in remaining:
            m.kw[k] = kwargs_p
    for i, p in enumerate(m.pos):
        if p is None:
            return None
        a = args[i]
        if a == SKIP:
            if not default_matches(p):
                return None
        elif (is_const(a) or (call.method and i == 0)) and not value_matches(a, p):
            return None           # literal constants - and the receiver, which is already a value - are
            #                       type-checked already here
    for k in remaining:
        if is_const(call.kwargs[k]) and not value_matches(call.kwargs[k], kwargs_p):
            return None
    for i, p in enumerate(m.pos):
        if p.lazy:
            m.lazy.add(i)
    for k, p in m.kw.items():
        if p.lazy:
            m.lazy.add(k)
    return m


def type_match(o, call, m):
    """rule 5: evaluated arguments validated by each parameter's type"""
    visible = [p for p in o.params if not p.hidden]
    bound_names = set()
    for i, p in enumerate(m.pos):
        a = call.args[i]
        if a == SKIP:
            if not default_matches(p):
                return False
        elif not value_matches(a, p):
            return False
        if p.kind == 'pos':
            bound_names.add(p.name)
    for k, p in m.kw.items():
        if not value_matches(call.kwargs[k], p):
            return False
        if p.kind in ('pos', 'kwonly'):
            bound_names.add(p.name)
    for p in visible:
        if p.kind in ('pos', 'kwonly') and p.name not in bound_names:
            if not default_matches(p):       # the default is used and must itself be acceptable
                return False
    return True


def more_specific(o1, m1, o2, m2):
    """m1 is at least as specific as m2 on every bound parameter and strictly on one"""
    res = False
    for p1, p2 in zip(m1.pos, m2.pos):
        if _strict(p2, p1):
            return False
        if _strict(p1, p2):
            res = True
    for k, p1 in m1.kw.items():
        p2 = m2.kw[k]
        if _strict(p2, p1):
            return False
        if _strict(p1, p2):
            res = True
    return res


def _strict(p1, p2):
    if p1.lazy or p2.lazy:
        return False
    return fam.strictly_more_specific(p1.tname, p2.tname)


def bound_arguments(o, call, m):
    """what the payload receives: name -> value key / default / tuple / dict"""
    out = {}
    visible = [p for p in o.params if not p.hidden]
    extra = []
    for i, p in enumerate(m.pos):
        a = call.args[i]
        if p.kind == 'varargs':
            extra.append(a)
        else:
            out[p.name] = ('default', p.default) if a == SKIP else ('arg', a)
    extra_kw = {}
    for k, p in m.kw.items():
        if p.kind == 'kwargs':
            extra_kw[k] = ('arg', call.kwargs[k])
        else:
            out[p.name] = ('arg', call.kwargs[k])
    for p in visible:
        if p.kind in ('pos', 'kwonly') and p.name not in out:
            out[p.name] = ('default', p.default)
        elif p.kind == 'varargs':
            out[p.name] = ('tuple', [('arg', a) for a in extra])
        elif p.kind == 'kwargs':
            out[p.name] = ('dict', extra_kw)
    return out


def resolve(layers, exclusive, call):
    """layers: list (nearest first) of lists of OverloadSpec; exclusive: list of bool"""
    def kind_ok(o):
        return o.kind in ('method', 'extension') if call.method else o.kind in ('function', 'extension')
    collected = []
    for layer, excl in zip(layers, exclusive):
        cands = [o for o in layer if kind_ok(o)]
        if cands:
            collected.append(cands)
        if excl and layer:
            break
    if not collected:
        return {'outcome': ('error', 'unknown'), 'evaluated': False, 'rule': 'kind/registration'}
    flags = {o.no_kwargs for layer in collected for o in layer}
    if len(flags) > 1:
        return {'outcome': ('error', 'ambiguous'), 'evaluated': False, 'rule': 'no_kwargs flags differ'}
    no_kwargs = flags.pop()
    if not no_kwargs and call.bad_keyword:
        return {'outcome': ('error', 'translation'), 'evaluated': False, 'rule': 'mapping translation'}
    mapped = []
    lazy = None
    for layer in collected:
        ml = []
        for o in layer:
            m = syntactic_map(o, call)
            if m is None:
                continue
            if lazy is None:
                lazy = m.lazy
            elif lazy != m.lazy:
                return {'outcome': ('error', 'ambiguous'), 'evaluated': False, 'rule': 'laziness differs'}
            ml.append((o, m))
        if ml:
            mapped.append(ml)
    if not mapped:
        return {'outcome': ('error', 'no-match'), 'evaluated': False, 'rule': 'syntactic filter'}
    for ml in mapped:
        matches = [(o, m) for o, m in ml if type_match(o, call, m)]
        if not matches:
            continue
        for o, m in matches:
            if all(m2 is m or more_specific(o, m, o2, m2) for o2, m2 in matches):
                return {'outcome': ('ran', o.tag, bound_arguments(o, call, m)), 'evaluated': True,
                        'rule': 'single match' if len(matches) == 1 else 'most specific of %d' % len(matches),
                        'lazy': sorted(map(str, lazy or ()))}
        return {'outcome': ('error', 'ambiguous'), 'evaluated': True, 'rule': 'no most specific match'}
    return {'outcome': ('error', 'no-match'), 'evaluated': True, 'rule': 'type filter'}


def selftest():
    P = fam.ParamSpec
    O = fam.OverloadSpec
    f1 = O('t1', [P('x', 'A', False)])
    f2 = O('t2', [P('x', 'B', False)])
    f3 = O('t3', [P('x', 'object'), P('y', 'int', True, 5, True)])
    r = resolve([[f1, f2, f3]], [False], CallSpec(['c']))
    assert r['outcome'][:2] == ('ran', 't2'), r
    r = resolve([[f1]], [False], CallSpec(['d']))
    assert r['outcome'] == ('error', 'no-match')
    r = resolve([[f1], [f3]], [False, False], CallSpec(['d']))
    assert r['outcome'][:2] == ('ran', 't3'), r
    r = resolve([[f1], [f3]], [True, False], CallSpec(['d']))
    assert r['outcome'] == ('error', 'no-match')
    r = resolve([[f1]], [False], CallSpec(['a'], method=True))
    assert r['outcome'] == ('error', 'unknown')
    r = resolve([[f3]], [False], CallSpec(['a'], {'y': 'i'}))
    assert r['outcome'][2] == {'x': ('arg', 'a'), 'y': ('arg', 'i')}, r
    r = resolve([[O('u', [P('x', 'A')]), O('v', [P('x', 'A')])]], [False], CallSpec(['a']))
    assert r['outcome'] == ('error', 'ambiguous')
