"""Executable reference models of the strings / regex functions (C19), written
from their docstrings.  String searching, splitting, trimming and replacing
are hand-written loops (not str.find/split/strip/replace); the regex models use
Python's `re` directly, as the statement allows, and build the match records.
"""
import re


class ModelError(Exception):
    pass


WS = ''.join(chr(c) for c in range(0x3100) if chr(c).isspace())   # whitespace as the documentation's python uses it


def _find(s, sub, lo, hi):
    """first i with lo <= i, i + len(sub) <= hi, s[i:i+len(sub)] == sub"""
    n = len(sub)
    i = lo
    while i + n <= hi:
        if s[i:i + n] == sub:
            return i
        i += 1
    return -1


def _rfind(s, sub, lo, hi):
    n = len(sub)
    i = hi - n
    while i >= lo:
        if s[i:i + n] == sub:
            return i
        i -= 1
    return -1


def _clip(i, n):
    """python-style index normalisation for a search window bound"""
    if i < 0:
        i += n
        if i < 0:
            i = 0
    elif i > n:
        i = n
    return i


def index_of(s, sub, start=0):
    if start > len(s):
        return -1
    return _find(s, sub, _clip(start, len(s)), len(s))


def last_index_of(s, sub, start=0):
    if start > len(s):
        return -1
    return _rfind(s, sub, _clip(start, len(s)), len(s))


def _window(s, start, length):
    n = len(s)
    if start < 0:
        start += n
    if length < 0:
        length = n - start
    return start, start + length


def index_of_len(s, sub, start, length):
    lo, hi = _window(s, start, length)
    if lo > len(s):
        return -1
    return _find(s, sub, _clip(lo, len(s)), _clip(hi, len(s)))


def last_index_of_len(s, sub, start, length):
    lo, hi = _window(s, start, length)
    if lo > len(s):
        return -1
    return _rfind(s, sub, _clip(lo, len(s)), _clip(hi, len(s)))


def substring(s, start, length=-1):
    n = len(s)
    if length < 0:
        length = n
    if start < 0:
        start += n
    lo, hi = start, start + length
    out = ''
    lo2, hi2 = _clip(lo, n), _clip(hi, n)
    for i in range(lo2, hi2):
        out += s[i]
    return out


def split(s, sep=None, maxsplit=-1):
    if sep is None:
        out = []
        i = 0
        n = len(s)
        splits = 0
        while True:
            while i < n and s[i] in WS:
                i += 1
            if i >= n:
                return out
            if maxsplit >= 0 and splits >= maxsplit:
                out.append(s[i:])       # the remainder is kept as it is
                return out
            j = i
            while j < n and s[j] not in WS:
                j += 1
            out.append(s[i:j])
            splits += 1
            i = j
    if sep == '':
        raise ModelError('empty separator')
    out = []
    i = 0
    splits = 0
    while True:
        if maxsplit >= 0 and splits >= maxsplit:
            break
        j = _find(s, sep, i, len(s))
        if j < 0:
            break
        out.append(s[i:j])
        i = j + len(sep)
        splits += 1
    out.append(s[i:])
    return out


def rsplit(s, sep=None, maxsplit=-1):
    if sep is None:
        out = []
        j = len(s)
        splits = 0
        while True:
            while j > 0 and s[j - 1] in WS:
                j -= 1
            if j <= 0:
                break
            if maxsplit >= 0 and splits >= maxsplit:
                out.append(s[:j])
                break
            i = j
            while i > 0 and s[i - 1] not in WS:
                i -= 1
            out.append(s[i:j])
            splits += 1
            j = i
        return out[::-1]
    if sep == '':
        raise ModelError('empty separator')
    out = []
    j = len(s)
    splits = 0
    while True:
        if maxsplit >= 0 and splits >= maxsplit:
            break
        i = _rfind(s, sep, 0, j)
        if i < 0:
            break
        out.append(s[i + len(sep):j])
        j = i
        splits += 1
    out.append(s[:j])
    return out[::-1]


def trim(s, chars=None, left=True, right=True):
    cs = WS if chars is None else chars
    i, j = 0, len(s)
    if left:
        while i < j and s[i] in cs:
            i += 1
    if right:
        while j > i and s[j - 1] in cs:
            j -= 1
    return s[i:j]


def norm(s, chars=None):
    if s is None:
        return None
    v = trim(s, chars)
    return v if v else None


def is_empty(s, do_trim=True, chars=None):
    if s is None:
        return True
    if do_trim:
        s = trim(s, chars)
    return len(s) == 0


def replace(s, old, new, count=-1):
    if count == 0:
        return s
    if old == '':
        # python semantics: new is inserted before every character and at the end
        out = ''
        done = 0
        for i, ch in enumerate(s):
            if count < 0 or done < count:
                out += new
                done += 1
            out += ch
        if count < 0 or done < count:
            out += new
        return out
    out = ''
    i = 0
    done = 0
    while True:
        if count >= 0 and done >= count:
            break
        j = _find(s, old, i, len(s))
        if j < 0:
            break
        out += s[i:j] + new
        i = j + len(old)
        done += 1
    return out + s[i:]


def yaql_str(v):
    if v is None:
        return 'null'
    if v is True:
        return 'true'
    if v is False:
        return 'false'
    return str(v)


def replace_dict(s, pairs, count=-1):
    for k, v in pairs:
        s = replace(s, yaql_str(k), yaql_str(v), count)
    return s


def join(sep, items):
    out = ''
    first = True
    for x in items:
        if not first:
            out += sep
        out += yaql_str(x)
        first = False
    return out


ASCII_UP = {chr(c): chr(c - 32) for c in range(97, 123)}
ASCII_LOW = {v: k for k, v in ASCII_UP.items()}


def to_upper_ascii(s):
    return ''.join(ASCII_UP.get(c, c) for c in s)


def to_lower_ascii(s):
    return ''.join(ASCII_LOW.get(c, c) for c in s)


def starts_with(s, prefixes):
    return any(s[:len(p)] == p for p in prefixes)


def ends_with(s, suffixes):
    return any((s[len(s) - len(p):] == p if len(p) <= len(s) else False) for p in suffixes)


def hex_(n):
    if not isinstance(n, int) or isinstance(n, bool):
        raise ModelError('hex of non-int')
    digits = '0123456789abcdef'
    m = -n if n < 0 else n
    out = ''
    while True:
        out = digits[m % 16] + out
        m //= 16
        if m == 0:
            break
    return ('-' if n < 0 else '') + '0x' + out


CHARSETS = {
    'digits': '0123456789', 'hexdigits': '0123456789abcdefABCDEF',
    'asciiLowercase': 'abcdefghijklmnopqrstuvwxyz', 'asciiUppercase': 'ABCDEFGHIJKLMNOPQRSTUVWXYZ',
    'asciiLetters': 'abcdefghijklmnopqrstuvwxyzABCDEFGHIJKLMNOPQRSTUVWXYZ', 'octdigits': '01234567',
    'punctuation': '!"#$%&\'()*+,-./:;<=>?@[\\]^_`{|}~', 'whitespace': ' \t\n\r\x0b\x0c',
}
CHARSETS['printable'] = (CHARSETS['digits'] + CHARSETS['asciiLetters'] + CHARSETS['punctuation'] + CHARSETS['whitespace'])
PY2_ONLY = ('letters', 'lowercase', 'uppercase')     # names that do not exist in python 3's string module


def characters(flags):
    s = ''
    for name in ('digits', 'hexdigits', 'asciiLowercase', 'asciiUppercase', 'asciiLetters', 'letters', 'octdigits',
                 'punctuation', 'printable', 'lowercase', 'uppercase', 'whitespace'):
        if flags.get(name):
            if name in PY2_ONLY:
                raise ModelError('python 2 only')
            s += CHARSETS[name]
    return set(s)


# ---- regex: python's re is the reference; the model builds the match records -----------------------------

def compile_(pattern, ignore_case=False, multi_line=False, dot_all=False):
    flags = re.UNICODE
    if ignore_case:
        flags |= re.IGNORECASE
    if multi_line:
        flags |= re.MULTILINE
    if dot_all:
        flags |= re.DOTALL
    return re.compile(pattern, flags)


def match_records(m):
    """variables visible to a selector: '$'/'$1' whole match, '$2'.. groups, '$name' named groups"""
    recs = {'1': {'value': m.group(), 'start': m.start(0), 'end': m.end(0)}}
    for i in range(1, (m.re.groups or 0) + 1):
        recs[str(i + 1)] = {'value': m.group(i), 'start': m.start(i), 'end': m.end(i)}
    for name in m.re.groupindex:
        recs[name] = {'value': m.group(name), 'start': m.start(name), 'end': m.end(name)}
    return recs
