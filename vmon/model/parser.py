"""Reference parser for C02: precedence climbing over a flat token sequence,
driven only by an operator table in the factory's list format.

Binding rules (language_reference.rst / extending_yaql.rst): groups are listed
tightest first; operators of one group associate as declared; a prefix
operator takes as operand everything that binds strictly tighter than its own
group (within a group, right-associative binaries and suffix operators bind
tighter than prefix operators and left-associative binaries); index
expressions are postfix at the group of '[]'; parentheses, call arguments and
list/map/index arguments are independent sequences; `a => b` arguments are
mapping rules whose sides extend maximally.

Tokens: ('operand', sexpr) ('op', sym) ('func', name) ('(',) (')',) ('[',)
(']',) ('{',) ('}',) (',',) ('=>',)
Output: the same canonical s-expression strings as vmon.yq.canon_tree.
"""

PREFIX = 'PREFIX_UNARY'
SUFFIX = 'SUFFIX_UNARY'
LEFT = 'BINARY_LEFT_ASSOCIATIVE'
RIGHT = 'BINARY_RIGHT_ASSOCIATIVE'
NVP = 'NAME_VALUE_PAIR'


class ModelParseError(Exception):
    pass


class Table:
    def __init__(self, records):
        ngroups = sum(1 for r in records if not r) + 1
        self.binary = {}   # sym -> (power, assoc, funcname)
        self.prefix = {}   # sym -> (power, funcname)
        self.suffix = {}
        self.name_value = None
        self.index_power = None
        group = 0
        self.groups = [[]]
        for r in records:
            if not r:
                group += 1
                self.groups.append([])
                continue
            sym, typ = r[0], r[1]
            alias = r[2] if len(r) > 2 else None
            self.groups[-1].append((sym, typ))
            base = (ngroups - group) * 2
            if typ == NVP:
                self.name_value = sym
            elif typ == PREFIX:
                self.prefix[sym] = (base, ('*' + alias) if alias else '#unary_operator_' + sym)
            elif typ == SUFFIX:
                self.suffix[sym] = (base + 1, ('*' + alias) if alias else '#unary_operator_' + sym)
            elif typ in (LEFT, RIGHT):
                power = base + (1 if typ == RIGHT else 0)
                if sym == '[]':
                    self.index_power = power
                elif sym == '{}':
                    pass
                else:
                    self.binary[sym] = (power, typ, ('*' + alias) if alias else '#operator_' + sym)

    def homogeneous(self):
        """every group: binaries of one associativity with optional prefix
        operators, or only suffix operators (the property's precondition)"""
        for g in self.groups:
            kinds = {t for s, t in g if t != NVP}
            if SUFFIX in kinds and kinds != {SUFFIX}:
                return False
            if LEFT in kinds and RIGHT in kinds:
                return False
        return True


class Parser:
    def __init__(self, table, tokens):
        self.t = table
        self.toks = tokens
        self.i = 0

    def peek(self):
        return self.toks[self.i] if self.i < len(self.toks) else ('eof',)

    def next(self):
        tok = self.peek()
        self.i += 1
        return tok

    def parse(self):
        e = self.expr(0)
        if self.peek()[0] != 'eof':
            raise ModelParseError('trailing tokens at %d' % self.i)
        return e

    def expr(self, min_power):
        left = self.prefix_expr()
        while True:
            tok = self.peek()
            if tok[0] == 'op':
                sym = tok[1]
                if sym in self.t.binary:
                    power, assoc, fname = self.t.binary[sym]
                    if power < min_power:
                        break
                    self.next()
                    right = self.expr(power + 1 if assoc == LEFT else power)
                    left = '(bin %s %s %s %s)' % (sym, fname, left, right)
                    continue
                if sym in self.t.suffix:
                    power, fname = self.t.suffix[sym]
                    if power < min_power:
                        break
                    self.next()
                    left = '(un %s %s %s)' % (sym, fname, left)
                    continue
                raise ModelParseError('operator %r in binary position' % sym)
            if tok[0] == '[' and self.t.index_power is not None:
                if self.t.index_power < min_power:
                    break
                self.next()
                args = self.args(']')
                left = '(index %s%s)' % (left, ''.join(' ' + a for a in args))
                continue
            break
        return left

    def prefix_expr(self):
        tok = self.next()
        k = tok[0]
        if k == 'operand':
            return tok[1]
        if k == 'op':
            sym = tok[1]
            if sym not in self.t.prefix:
                raise ModelParseError('operator %r in prefix position' % sym)
            power, fname = self.t.prefix[sym]
            operand = self.expr(power + 1)
            return '(un %s %s %s)' % (sym, fname, operand)
        if k == '(':
            e = self.expr(0)
            if self.next()[0] != ')':
                raise ModelParseError('expected )')
            return e
        if k == 'func':
            args = self.args(')')
            return '(call %s%s)' % (tok[1], ''.join(' ' + a for a in args))
        if k == '[':
            args = self.args(']')
            return '(list%s)' % ''.join(' ' + a for a in args)
        if k == '{':
            args = self.args('}')
            return '(map%s)' % ''.join(' ' + a for a in args)
        raise ModelParseError('unexpected token %r' % (tok,))

    def args(self, closer):
        out = []
        if self.peek()[0] == closer:
            self.next()
            return out
        while True:
            if self.peek()[0] == ',':
                out.append('_')
                self.next()
                continue
            e = self.expr(0)
            if self.peek()[0] == '=>':
                self.next()
                d = self.expr(0)
                e = '(rule %s %s)' % (e, d)
            out.append(e)
            tok = self.next()
            if tok[0] == closer:
                return out
            if tok[0] != ',':
                raise ModelParseError('expected , or %s' % closer)


def model_parse(records, tokens):
    return Parser(Table(records), tokens).parse()


def selftest():
    std = [('=>', NVP), ('.', LEFT), (), ('[]', LEFT), (), ('-', PREFIX), (), ('*', LEFT), (), ('+', LEFT),
           ('-', LEFT), (), ('not', PREFIX), (), ('->', RIGHT)]
    v = lambda n: ('operand', '(var $%s)' % n)  # noqa: E731
    o = lambda s: ('op', s)  # noqa: E731
    got = model_parse(std, [v('a'), o('+'), v('b'), o('*'), v('c')])
    assert got == '(bin + #operator_+ (var $a) (bin * #operator_* (var $b) (var $c)))', got
    got = model_parse(std, [v('a'), o('-'), v('b'), o('-'), v('c')])
    assert got == '(bin - #operator_- (bin - #operator_- (var $a) (var $b)) (var $c))', got
    got = model_parse(std, [v('a'), o('->'), v('b'), o('->'), v('c')])
    assert got == '(bin -> #operator_-> (var $a) (bin -> #operator_-> (var $b) (var $c)))', got
    got = model_parse(std, [o('-'), v('a'), ('[',), v('b'), (']',)])
    assert got == '(un - #unary_operator_- (index (var $a) (var $b)))', got
    got = model_parse(std, [v('a'), o('*'), o('not'), v('b'), o('+'), v('c')])
    assert got == '(bin * #operator_* (var $a) (un not #unary_operator_not (bin + #operator_+ (var $b) (var $c))))', got
    got = model_parse(std, [('func', 'f'), v('a'), (',',), (',',), v('b'), ('=>',), v('c'), o('+'), v('d'), (')',)])
    assert got == '(call f (var $a) _ (rule (var $b) (bin + #operator_+ (var $c) (var $d))))', got
