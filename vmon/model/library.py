"""Executable reference models of the collections / queries functions, written
from their docstrings (C13, C14).  Every model is a *lazy* python generator or
a plain function over python values, so the same model predicts values, source
consumption and lambda application counts.

Lambdas are pairs (yaql text, python callable with yaql scalar semantics).
"""
import itertools

from vmon.model import scalar as ms


class ModelError(Exception):
    pass


def op(sym, a, b):
    r = ms.binary(sym, a, b) if _scalar(a) and _scalar(b) else _nonscalar(sym, a, b)
    if r[0] == 'error':
        raise ModelError('%r %s %r' % (a, sym, b))
    return r[1]


def _scalar(v):
    return v is None or isinstance(v, (bool, int, float, str))


def _nonscalar(sym, a, b):
    if sym == '=':
        return ('value', a == b)
    if sym == '!=':
        return ('value', a != b)
    if sym == '+' and isinstance(a, (list, tuple)) and isinstance(b, (list, tuple)):
        return ('value', list(a) + list(b))
    if sym == '+' and isinstance(a, dict) and isinstance(b, dict):
        d = dict(a)
        d.update(b)
        return ('value', d)
    if sym == '*':
        for x, y in ((a, b), (b, a)):
            if isinstance(x, (list, tuple)) and isinstance(y, int) and not isinstance(y, bool):
                return ('value', list(x) * y)
    if sym in ('<', '<=', '>', '>=') and (a is None or b is None):
        ra, rb = (0 if a is None else 1), (0 if b is None else 1)
        return ('value', {'<': ra < rb, '<=': ra <= rb, '>': ra > rb, '>=': ra >= rb}[sym])
    return ('error', 'nomatch')


def neg(a):
    r = ms.unary('-', a) if _scalar(a) else ('error',)
    if r[0] == 'error':
        raise ModelError('-%r' % (a,))
    return r[1]


def is_iterable(v):
    return isinstance(v, (list, tuple, set, frozenset)) or hasattr(v, '__next__')


def yaql_len(v):
    if isinstance(v, (str, list, tuple, dict, set, frozenset)):
        return len(v)
    if hasattr(v, '__next__'):
        return sum(1 for _ in v)
    raise ModelError('len of %r' % (v,))


def yaql_str(v):
    if v is None:
        return 'null'
    if v is True:
        return 'true'
    if v is False:
        return 'false'
    return str(v)


class Lam:
    def __init__(self, text, fn, arity=1, kind='selector'):
        self.text = text
        self.fn = fn
        self.arity = arity
        self.kind = kind
        self.calls = 0

    def __call__(self, *a):
        self.calls += 1
        return self.fn(*a)

    def fresh(self):
        return Lam(self.text, self.fn, self.arity, self.kind)


def _idx(x, i):
    if isinstance(x, (list, tuple)):
        return x[i]
    raise ModelError('index of %r' % (x,))


PREDICATES = [
    Lam('$ > 1', lambda x: op('>', x, 1), kind='predicate'),
    Lam('$ mod 2 = 0', lambda x: op('=', op('mod', x, 2), 0), kind='predicate'),
    Lam('$ = null', lambda x: x is None, kind='predicate'),
    Lam('true', lambda x: True, kind='predicate'),
    Lam('false', lambda x: False, kind='predicate'),
    Lam('$ != 1', lambda x: op('!=', x, 1), kind='predicate'),
    Lam('$ < 3', lambda x: op('<', x, 3), kind='predicate'),
    Lam('$ >= 0', lambda x: op('>=', x, 0), kind='predicate'),
    Lam('$', lambda x: x, kind='predicate'),
]
SELECTORS = [
    Lam('$', lambda x: x),
    Lam('$ * 2', lambda x: op('*', x, 2)),
    Lam('$ + 1', lambda x: op('+', x, 1)),
    Lam('[$, $]', lambda x: [x, x]),
    Lam('$ mod 3', lambda x: op('mod', x, 3)),
    Lam('-$', lambda x: neg(x)),
    Lam('null', lambda x: None),
    Lam('[$]', lambda x: [x]),
    Lam('1', lambda x: 1),
    Lam('$ > 1', lambda x: op('>', x, 1)),
]
PAIR_SELECTORS = [                         # for elements that are [a, b] pairs
    Lam('$[0]', lambda x: _idx(x, 0)),
    Lam('$[1]', lambda x: _idx(x, 1)),
    Lam('$[0] + $[1]', lambda x: op('+', _idx(x, 0), _idx(x, 1))),
]
BINARY = [
    Lam('$1 + $2', lambda a, b: op('+', a, b), 2),
    Lam('$1 * $2', lambda a, b: op('*', a, b), 2),
    Lam('[$1, $2]', lambda a, b: [a, b], 2),
    Lam('$2', lambda a, b: b, 2),
    Lam('$1', lambda a, b: a, 2),
    Lam('$1 - $2', lambda a, b: op('-', a, b), 2),
]
JOIN_PREDICATES = [
    Lam('$1 = $2', lambda a, b: op('=', a, b), 2, 'predicate'),
    Lam('$1 > $2', lambda a, b: op('>', a, b), 2, 'predicate'),
    Lam('true', lambda a, b: True, 2, 'predicate'),
]


def truthy(v):
    return bool(v)


# ---------------------------------------------------------------------------------------------------
# lazy models of streaming operators (used by C13 for values and by C14 for consumption)

def m_select(c, f):
    for x in c:
        yield f(x)


def m_where(c, p):
    for x in c:
        if truthy(p(x)):
            yield x


def m_select_many(c, f):
    for x in c:
        r = f(x)
        if is_iterable(r):
            for y in r:
                yield y
        else:
            yield r


def m_skip(c, n):
    if n < 0:
        raise ModelError('negative skip')
    it = iter(c)
    for _ in range(n):
        try:
            next(it)
        except StopIteration:
            return
    for x in it:
        yield x


def m_take(c, n):
    if n < 0:
        raise ModelError('negative take')
    if n == 0:
        return
    k = 0
    for x in c:
        yield x
        k += 1
        if k >= n:
            return


def m_take_while(c, p):
    for x in c:
        if not truthy(p(x)):
            return
        yield x


def m_skip_while(c, p):
    it = iter(c)
    for x in it:
        if not truthy(p(x)):
            yield x
            break
    for x in it:
        yield x


def m_append(c, *vals):
    for x in c:
        yield x
    for v in vals:
        yield v


def m_concat(*cs):
    for c in cs:
        for x in c:
            yield x


def m_distinct(c, key=None):
    seen = []
    for x in c:
        k = x if key is None else key(x)
        k = _hashable(k)
        if k not in seen:
            seen.append(k)
            yield x


def _hashable(k):
    if isinstance(k, (list, tuple)):
        return tuple(_hashable(x) for x in k)
    if isinstance(k, dict):
        return ('dict', tuple(sorted((repr(a), _hashable(b)) for a, b in k.items())))
    return k


def m_enumerate(c, start=0):
    i = start
    for x in c:
        yield [i, x]
        i += 1


def m_zip(*cs):
    its = [iter(c) for c in cs]
    if not its:
        return
    while True:
        row = []
        for it in its:
            try:
                row.append(next(it))
            except StopIteration:
                return
        yield row


def m_zip_longest(cs, default=None):
    for row in itertools.zip_longest(*cs, fillvalue=default):
        yield list(row)


NOVALUE = object()


def m_accumulate(c, f, seed=NOVALUE):
    it = iter(c)
    if seed is NOVALUE:
        try:
            seed = next(it)
        except StopIteration:
            raise ModelError('accumulate of empty sequence')
    yield seed
    total = seed
    for x in it:
        total = f(total, x)
        yield total


def m_insert(c, position, value):
    i = -1
    for i, x in enumerate(c):
        if i == position:
            yield value
        yield x
    if position > i:
        yield value


def m_insert_many(c, position, values):
    i = -1
    if position < 0:
        for v in values:
            yield v
    for i, x in enumerate(c):
        if i == position:
            for v in values:
                yield v
        yield x
    if position > i:
        for v in values:
            yield v


def m_delete(c, position, count=1):
    for i, x in enumerate(c):
        if count >= 0:
            if not (position <= i < position + count):
                yield x
        elif not i >= position:
            yield x


def m_replace(c, position, value, count=1):
    done = False
    for i, x in enumerate(c):
        if (count >= 0 and position <= i < position + count) or (count < 0 and i >= position):
            if not done:
                done = True
                yield value
        else:
            yield x


def m_replace_many(c, position, values, count=1):
    done = False
    for i, x in enumerate(c):
        if (count >= 0 and position <= i < position + count) or (count < 0 and i >= position):
            if not done:
                done = True
                for v in values:
                    yield v
        else:
            yield x


def m_slice(c, length):
    it = iter(c)
    if length < 0:
        raise ModelError('negative length')
    while True:
        chunk = []
        for _ in range(length):
            try:
                chunk.append(next(it))
            except StopIteration:
                break
        if not chunk:
            return
        yield chunk


def m_memorize(c):
    for x in c:
        yield x


def m_attribute(c, name):
    for x in c:
        yield m_member(x, name)


def m_member(x, name):
    if isinstance(x, dict):
        if name not in x:
            raise ModelError('KeyError')
        return x[name]
    if is_iterable(x):
        return list(m_attribute(x, name))
    raise ModelError('no member %s of %r' % (name, x))


def m_join(c1, c2, pred, sel):
    c2m = None
    for a in c1:
        if c2m is None:
            c2m = list(c2)
        for b in c2m:
            if truthy(pred(a, b)):
                yield sel(a, b)


def m_join_lazy(c1, c2, pred, sel):
    """consumption-faithful variant: the inner side is memorised lazily"""
    cache = []
    it2 = iter(c2)

    def inner():
        for b in cache:
            yield b
        for b in it2:
            cache.append(b)
            yield b
    for a in c1:
        for b in inner():
            if truthy(pred(a, b)):
                yield sel(a, b)


def m_generate(initial, pred, producer, selector=None, decycle=False):
    past = [] if decycle else None
    x = initial
    while truthy(pred(x)):
        if past is not None:
            if x in past:
                return
            past.append(x)
        yield x if selector is None else selector(x)
        x = producer(x)


def m_generate_many(initial, producer, selector=None, decycle=False, depth_first=False):
    past = [] if decycle else None
    queue = [initial]
    while queue:
        item = queue.pop(0)
        if past is not None:
            if item in past:
                continue
            past.append(item)
        yield item if selector is None else selector(item)
        produced = list(producer(item))
        if depth_first:
            queue = produced + queue
        else:
            queue = queue + produced


# ---- eager functions ------------------------------------------------------------------------------------

def m_first(c, default=NOVALUE):
    for x in c:
        return x
    if default is NOVALUE:
        raise ModelError('StopIteration')
    return default


def m_last(c, default=NOVALUE):
    last = default
    for x in c:
        last = x
    if last is NOVALUE:
        raise ModelError('StopIteration')
    return last


def m_single(c):
    lst = list(c)
    if len(lst) != 1:
        raise ModelError('StopIteration')
    return lst[0]


def m_aggregate(c, f, seed=NOVALUE):
    it = iter(c)
    if seed is NOVALUE:
        try:
            acc = next(it)
        except StopIteration:
            raise ModelError('aggregate of empty sequence')
    else:
        acc = seed
    for x in it:
        acc = f(acc, x)
    return acc


def m_sum(c, initial=NOVALUE):
    return m_aggregate(c, lambda a, b: op('+', a, b), initial)


def m_max(c, initial=NOVALUE):
    return m_aggregate(c, lambda a, b: b if op('>', b, a) else a, initial)


def m_min(c, initial=NOVALUE):
    return m_aggregate(c, lambda a, b: a if op('>', b, a) else b, initial)


def m_any(c, p=None):
    for x in c:
        if p is None or truthy(p(x)):
            return True
    return False


def m_all(c, p=None):
    for x in c:
        if not truthy(x if p is None else p(x)):
            return False
    return True


def m_index_of(c, item):
    for i, x in enumerate(c):
        if x == item:
            return i
    return -1


def m_last_index_of(c, item):
    r = -1
    for i, x in enumerate(c):
        if x == item:
            r = i
    return r


def m_index_where(c, p):
    for i, x in enumerate(c):
        if truthy(p(x)):
            return i
    return -1


def m_last_index_where(c, p):
    r = -1
    for i, x in enumerate(c):
        if truthy(p(x)):
            r = i
    return r


def m_split_at(c, index):
    lst = list(c)
    return [lst[:index], lst[index:]]


def m_slice_where(c, p):
    out = []
    cur = []
    prev = NOVALUE
    for x in c:
        v = p(x)
        if prev is not NOVALUE and v != prev:
            out.append(cur)
            cur = []
        cur.append(x)
        prev = v
    if cur:
        out.append(cur)
    return out


def m_split_where(c, p):
    lst = list(c)
    out = []
    start = 0
    end = 0
    while end < len(lst):
        if truthy(p(lst[end])):
            out.append(lst[start:end])
            start = end + 1
        end += 1
    if start != end:
        out.append(lst[start:end])
    return out


def yaql_compare(a, b):
    if op('<', a, b):
        return -1
    if op('>', a, b):
        return 1
    return 0


def m_order_by(c, keys):
    """keys: list of (selector, ascending); stable sort, performed when the first element is requested"""
    import functools
    yield from _order_by(c, keys, functools)


def _order_by(c, keys, functools):

    def cmp(x, y):
        for sel, asc in keys:
            r = yaql_compare(sel(x), sel(y))
            if r:
                return r if asc else -r
        return 0
    return sorted(list(c), key=functools.cmp_to_key(cmp))


def m_group_by(c, key, value=None, aggregator=None):
    groups = []
    for x in c:
        k = key(x)
        v = x if value is None else value(x)
        for g in groups:
            if g[0] == k and type(g[0]) is type(k) or (g[0] == k):
                g[1].append(v)
                break
        else:
            groups.append([k, [v]])
    if aggregator is None:
        return groups
    return [[k, aggregator(vs)] for k, vs in groups]


def m_to_dict(c, key, value=None):
    d = {}
    for x in c:
        d[_hashable(key(x))] = x if value is None else value(x)
    return d


def m_flatten(c):
    for x in c:
        if is_iterable(x):
            for y in m_flatten(x):
                yield y
        else:
            yield x


def m_list(*args):
    def rec(seq):
        for t in seq:
            if hasattr(t, '__next__'):
                for y in rec(t):
                    yield y
            else:
                yield t
    return list(rec(args))


def m_default_if_empty(c, default):
    lst = list(c)
    return lst if lst else list(default)


def m_merge_with(d1, d2, list_merger=None, item_merger=None, max_levels=0):
    """deep merge; max_levels = how many dict levels are merged (0 = all); at the last allowed level and for
    scalars the item merger decides (default: second value); lists are merged with the list merger
    (default: distinct(lst1 + lst2))"""
    res = {}
    for k, v1 in d1.items():
        res[k] = v1
        if k in d2:
            v2 = d2[k]
            if max_levels != 1 and isinstance(v2, dict):
                if not isinstance(v1, dict):
                    raise ModelError('cannot merge')
                res[k] = m_merge_with(v1, v2, list_merger, item_merger, 0 if max_levels == 0 else max_levels - 1)
            elif max_levels != 1 and isinstance(v2, (list, tuple)):
                if not isinstance(v1, (list, tuple)):
                    raise ModelError('cannot merge')
                if list_merger is None:
                    res[k] = list(m_distinct(list(v1) + list(v2)))
                else:
                    res[k] = list_merger(list(v1), list(v2))
            else:
                res[k] = v2 if item_merger is None else item_merger(v1, v2)
    for k, v2 in d2.items():
        if k not in res:
            res[k] = v2
    return res


def finalize(v):
    """model-side counterpart of result finalisation (default options)"""
    if isinstance(v, dict):
        return {finalize_key(k): finalize(x) for k, x in v.items()}
    if isinstance(v, (set, frozenset)):
        return set(finalize(x) for x in v)
    if isinstance(v, (list, tuple)) or hasattr(v, '__next__') or isinstance(v, (range, map, filter)):
        return [finalize(x) for x in v]
    return v


def finalize_key(k):
    if isinstance(k, tuple):
        return tuple(finalize_key(x) for x in k)
    return k


def selftest():
    L = list
    assert L(m_skip([1, 2, 3], 1)) == [2, 3] and L(m_take([1, 2, 3], 2)) == [1, 2]
    assert L(m_accumulate([1, 2, 3], lambda a, b: a + b)) == [1, 3, 6]
    assert L(m_accumulate([1, 2, 3], lambda a, b: a + b, 100)) == [100, 101, 103, 106]
    assert L(m_delete([0, 1, 3, 4, 2], 2, 2)) == [0, 1, 2]
    assert L(m_replace([0, 1, 3, 4, 2], 2, 100, 2)) == [0, 1, 100, 2]
    assert L(m_replace_many([0, 1, 3, 4, 2], 2, [100, 200], 2)) == [0, 1, 100, 200, 2]
    assert L(m_insert([0, 1, 3], 2, 2)) == [0, 1, 2, 3] and L(m_insert_many([0, 1, 3], 2, [2, 22])) == [0, 1, 2, 22, 3]
    assert L(m_slice(range(1, 6), 2)) == [[1, 2], [3, 4], [5]]
    assert m_slice_where([1, 2, 3, 4, 5, 6, 7], lambda x: x % 3 == 0) == [[1, 2], [3], [4, 5], [6], [7]]
    assert m_split_where([1, 2, 3, 4, 5, 6, 7], lambda x: x % 3 == 0) == [[1, 2], [4, 5], [7]]
    assert m_split_at([1, 2, 3, 4], 1) == [[1], [2, 3, 4]]
    assert L(m_join([1, 2, 3, 4], [2, 5, 6], lambda a, b: a > b, lambda a, b: [a, b])) == [[3, 2], [4, 2]]
    assert m_group_by([['a', 1], ['b', 2], ['c', 1], ['d', 2]], lambda x: x[1], lambda x: x[0]) == [[1, ['a', 'c']], [2, ['b', 'd']]]
    assert L(m_order_by([[1, 'c'], [2, 'b'], [3, 'c'], [0, 'd']], [(lambda x: x[1], True)])) == [[2, 'b'], [1, 'c'], [3, 'c'], [0, 'd']]
    assert L(m_select_many([0, [1, 2], 3], lambda x: x * 2 if isinstance(x, int) else x * 2)) == [0, 1, 2, 1, 2, 6]
    assert L(m_generate(0, lambda x: x < 10, lambda x: x + 2)) == [0, 2, 4, 6, 8]
    assert L(m_generate_many('1', lambda x: {'1': ['2', '3'], '2': ['4'], '3': ['5']}.get(x, []))) == ['1', '2', '3', '4', '5']
    assert L(m_zip([1, 2, 3], [4, 5], [6, 7])) == [[1, 4, 6], [2, 5, 7]]
    assert m_merge_with({'a': 1, 'b': 2, 'c': [1, 2]}, {'d': 5, 'b': 3, 'c': [2, 3]}) == {'a': 1, 'c': [1, 2, 3], 'b': 3, 'd': 5}
