"""Flattened-layers reference model of yaql context trees (C17).

Storage (variables, overload sets, exclusive names) exists only for plain
contexts.  layers(ctx) is a list of layers, each an ordered list of storages:
  plain : [[self]] + layers(parent)
  multi : layer-wise merge of the members' layer lists (member order kept)
  linked: layers(linked context) + layers(given parent)
Reads are computed from layers; writes are routed to storages as documented.
"""
import itertools


def norm(name):
    if not name.startswith('$'):
        name = '$' + name
    if name == '$':
        name = '$1'
    return name


class Node:
    kind = None

    def layers(self):
        raise NotImplementedError

    # ---- reads ------------------------------------------------------------
    def get(self, name):
        k = norm(name)
        for layer in self.layers():
            for st in layer:
                if k in st.data:
                    return st.data[k]
        return None

    def has(self, name):
        k = norm(name)
        return any(k in st.data for st in self.layers()[0])

    def has_fd(self, fd_id, fname):
        return any(fd_id in st.funcs.get(fname, ()) for st in self.layers()[0])

    def keys(self):
        out = []
        for st in self.layers()[0]:
            for k in st.data:
                if k not in out:
                    out.append(k)
        return sorted(out)

    def get_functions(self, name):
        name = name.rstrip('_')
        fds = set()
        excl = False
        for st in self.layers()[0]:
            fds |= st.funcs.get(name, set())
            excl = excl or name in st.exclusive
        return fds, excl

    def collect_functions(self, name):
        name = name.rstrip('_')
        out = []
        for layer in self.layers():
            fds = set()
            excl = False
            for st in layer:
                fds |= st.funcs.get(name, set())
                excl = excl or name in st.exclusive
            if fds:
                out.append(fds)
            if excl:
                break
        return out

    # ---- write routing ----------------------------------------------------
    def write_target(self):
        raise NotImplementedError

    def delete_targets(self):
        raise NotImplementedError


class Plain(Node):
    kind = 'plain'

    def __init__(self, parent=None):
        self.parent = parent
        self.data = {}
        self.funcs = {}
        self.exclusive = set()

    def layers(self):
        return [[self]] + (self.parent.layers() if self.parent is not None else [])

    def write_target(self):
        return self

    def delete_targets(self):
        return [self]


class Multi(Node):
    kind = 'multi'

    def __init__(self, members):
        self.members = list(members)

    def layers(self):
        ls = [m.layers() for m in self.members]
        out = []
        for tup in itertools.zip_longest(*ls):
            layer = []
            for part in tup:
                if part:
                    layer.extend(part)
            out.append(layer)
        return out

    def write_target(self):
        return self.members[0].write_target()

    def delete_targets(self):
        out = []
        for m in self.members:
            out.extend(m.delete_targets())
        return out


class Linked(Node):
    kind = 'linked'

    def __init__(self, parent, linked):
        self.parent = parent
        self.linked = linked

    def layers(self):
        return self.linked.layers() + (self.parent.layers() if self.parent is not None else [])

    def write_target(self):
        return self.linked.write_target()

    def delete_targets(self):
        return self.linked.delete_targets()


def set_var(node, name, value):
    node.write_target().data[norm(name)] = value


def del_var(node, name):
    """deletes from every target storage; KeyError if any lacks it (callers only
    generate deletions that are clean or fail at the first target)"""
    k = norm(name)
    for st in node.delete_targets():
        if k not in st.data:
            raise KeyError(k)
        del st.data[k]


def register(node, fd_id, fname, exclusive):
    st = node.write_target()
    st.funcs.setdefault(fname, set()).add(fd_id)
    if exclusive:
        st.exclusive.add(fname)


def delete_function(node, fd_id, fname):
    for st in node.delete_targets():
        st.funcs.get(fname, set()).discard(fd_id)


def selftest():
    root = Plain()
    a = Plain(root)
    b = Plain(root)
    m = Multi([a, b])
    set_var(root, 'x', 1)
    set_var(b, '$x', 2)
    assert m.get('x') == 2 and a.get('x') == 1
    set_var(m, 'x', 3)
    assert a.data == {'$x': 3} and m.get('x') == 3
    set_var(a, '', 'd')
    assert m.get('$') == 'd' and m.get('$1') == 'd' and m.has('$1') and not root.has('$')
    lk = Linked(root, m)
    assert lk.get('x') == 3 and [len(l) for l in lk.layers()] == [2, 2, 1]
    register(root, 'f1', 'f', False)
    register(a, 'f2', 'f', True)
    assert m.collect_functions('f') == [{'f2'}] and b.collect_functions('f_') == [{'f1'}]
