"""Reference model of the scalar operators (C15), written from the property
statement and the operator docstrings.  Outcome: ('value', v) | ('error', class)

kinds: null, bool, int, float, str (plus 'list' only as the other operand of
the repetition operator).
"""

NOMATCH = 'NoMatchingFunctionException'


def kind(v):
    if v is None:
        return 'null'
    if isinstance(v, bool):
        return 'bool'
    if isinstance(v, int):
        return 'int'
    if isinstance(v, float):
        return 'float'
    if isinstance(v, str):
        return 'str'
    if isinstance(v, (list, tuple)):
        return 'list'
    raise TypeError(v)


def is_num(v):
    return kind(v) in ('int', 'float')


def _py(f):
    try:
        return ('value', f())
    except (OverflowError, MemoryError):
        return ('error', 'resource')
    except ZeroDivisionError:
        return ('error', 'ZeroDivisionError')


def binary(op, a, b):
    ka, kb = kind(a), kind(b)
    if op == '+':
        if is_num(a) and is_num(b):
            return _py(lambda: a + b)
        if ka == 'str' and kb == 'str':
            return ('value', a + b)
        if ka == 'list' and kb == 'list':
            return ('value', list(a) + list(b))
        return ('error', NOMATCH)
    if op == '-':
        if is_num(a) and is_num(b):
            return _py(lambda: a - b)
        return ('error', NOMATCH)
    if op == '*':
        if is_num(a) and is_num(b):
            return _py(lambda: a * b)
        for x, y in ((a, b), (b, a)):
            if kind(x) in ('str', 'list') and kind(y) == 'int':
                if kind(x) == 'list':
                    return _py(lambda: list(x) * y)
                return _py(lambda: x * y)
        return ('error', NOMATCH)
    if op == '/':
        if is_num(a) and is_num(b):
            if ka == 'int' and kb == 'int':
                return _py(lambda: a // b)
            return _py(lambda: a / b)
        return ('error', NOMATCH)
    if op == 'mod':
        if is_num(a) and is_num(b):
            return _py(lambda: a % b)
        return ('error', NOMATCH)
    if op in ('<', '<=', '>', '>='):
        if ka == 'null' or kb == 'null':
            # null orders below every non-null value
            ra, rb = (0 if ka == 'null' else 1), (0 if kb == 'null' else 1)
            return ('value', _cmp(op, ra, rb))
        if (is_num(a) and is_num(b)) or (ka == 'str' and kb == 'str'):
            return ('value', _cmp(op, a, b))
        return ('error', NOMATCH)
    if op == '=':
        return ('value', a == b)
    if op == '!=':
        return ('value', a != b)
    if op == 'and':
        return ('value', a and b)
    if op == 'or':
        return ('value', a or b)
    if op == 'in':
        if ka == 'str' and kb == 'str':
            return ('value', a in b)
        if kb == 'list':
            return ('value', a in b)
        return ('error', NOMATCH)
    raise ValueError(op)


def _cmp(op, a, b):
    return {'<': a < b, '<=': a <= b, '>': a > b, '>=': a >= b}[op]


def unary(op, a):
    if op in ('+', '-'):
        if is_num(a):
            return ('value', +a if op == '+' else -a)
        return ('error', NOMATCH)
    if op == 'not':
        return ('value', not a)
    raise ValueError(op)


def same(v, w):
    """type-aware equality: bool != int, -0.0 != 0.0"""
    if type(v) is not type(w):
        return False
    if isinstance(v, float):
        return repr(v) == repr(w)
    if isinstance(v, (list, tuple)):
        return len(v) == len(w) and all(same(x, y) for x, y in zip(v, w))
    return v == w


def selftest():
    assert binary('/', 7, 2) == ('value', 3) and binary('/', -7, 2) == ('value', -4)
    assert binary('/', 7, 2.0) == ('value', 3.5)
    assert binary('+', True, 1) == ('error', NOMATCH)
    assert binary('<', None, 0) == ('value', True) and binary('>=', None, None) == ('value', True)
    assert binary('<', True, None) == ('value', False)
    assert binary('<', 'a', 1) == ('error', NOMATCH)
    assert binary('*', 'ab', 2) == ('value', 'abab') and binary('*', 'ab', True) == ('error', NOMATCH)
    assert binary('/', 1, 0) == ('error', 'ZeroDivisionError')
    assert binary('+', 10 ** 400, 1.5) == ('error', 'resource')
    assert unary('-', True) == ('error', NOMATCH) and unary('not', 0) == ('value', True)
