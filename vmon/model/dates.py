"""Instant model for C20: a datetime is (U, O) = (UTC microseconds since
1970-01-01T00:00:00Z, offset microseconds), a timespan is T microseconds - all
Python ints.  Civil <-> days conversions are the proleptic-Gregorian
algorithms written out here (no use of the datetime module)."""

US_DAY = 86400 * 10 ** 6


def days_from_civil(y, m, d):
    y -= m <= 2
    era = (y if y >= 0 else y - 399) // 400
    yoe = y - era * 400
    doy = (153 * (m + (-3 if m > 2 else 9)) + 2) // 5 + d - 1
    doe = yoe * 365 + yoe // 4 - yoe // 100 + doy
    return era * 146097 + doe - 719468


def civil_from_days(z):
    z += 719468
    era = (z if z >= 0 else z - 146096) // 146097
    doe = z - era * 146097
    yoe = (doe - doe // 1460 + doe // 36524 - doe // 146096) // 365
    y = yoe + era * 400
    doy = doe - (365 * yoe + yoe // 4 - yoe // 100)
    mp = (5 * doy + 2) // 153
    d = doy - (153 * mp + 2) // 5 + 1
    m = mp + (3 if mp < 10 else -9)
    return (y + (m <= 2), m, d)


def local_us(y, mo, d, h=0, mi=0, s=0, us=0):
    return ((days_from_civil(y, mo, d) * 24 + h) * 60 + mi) * 60 * 10 ** 6 + s * 10 ** 6 + us


MIN_LOCAL = local_us(1, 1, 1)
MAX_LOCAL = local_us(9999, 12, 31, 23, 59, 59, 999999)


class OutOfRange(Exception):
    pass


def make(y, mo, d, h=0, mi=0, s=0, us=0, offset=0):
    """-> (U, O)"""
    return (local_us(y, mo, d, h, mi, s, us) - offset, offset)


def check_range(pair):
    u, o = pair
    if not (MIN_LOCAL <= u + o <= MAX_LOCAL):
        raise OutOfRange()
    return pair


def fields(pair):
    u, o = pair
    loc = u + o
    days, rem = divmod(loc, US_DAY)
    y, mo, d = civil_from_days(days)
    h, rem = divmod(rem, 3600 * 10 ** 6)
    mi, rem = divmod(rem, 60 * 10 ** 6)
    s, us = divmod(rem, 10 ** 6)
    return {'year': y, 'month': mo, 'day': d, 'hour': h, 'minute': mi, 'second': s, 'microsecond': us,
            'weekday': (days + 3) % 7}          # 1970-01-01 was a Thursday (Monday = 0)


def utc(pair):
    return check_range((pair[0], 0))


def date(pair):
    u, o = pair
    loc = u + o
    midnight = loc - loc % US_DAY
    return (midnight - o, o)


def time_of_day(pair):
    u, o = pair
    return (u + o) % US_DAY


def add(pair, t):
    return check_range((pair[0] + t, pair[1]))


def replace(pair, **kw):
    f = fields(pair)
    o = kw.pop('offset', None)
    for k, v in kw.items():
        if v is not None:
            f[k] = v
    off = pair[1] if o is None else o
    dim = [31, 29 if (f['year'] % 4 == 0 and (f['year'] % 100 != 0 or f['year'] % 400 == 0)) else 28, 31, 30, 31, 30, 31,
           31, 30, 31, 30, 31]
    if not (1 <= f['year'] <= 9999 and 1 <= f['month'] <= 12 and 1 <= f['day'] <= dim[f['month'] - 1] and
            0 <= f['hour'] < 24 and 0 <= f['minute'] < 60 and 0 <= f['second'] < 60 and 0 <= f['microsecond'] < 10 ** 6):
        raise OutOfRange()
    return make(f['year'], f['month'], f['day'], f['hour'], f['minute'], f['second'], f['microsecond'], off)


def timespan(days=0, hours=0, minutes=0, seconds=0, milliseconds=0, microseconds=0):
    return ((((days * 24 + hours) * 60 + minutes) * 60 + seconds) * 1000 + milliseconds) * 1000 + microseconds


def selftest():
    import datetime as dtm
    for y, mo, d in ((1970, 1, 1), (2000, 2, 29), (1, 1, 1), (9999, 12, 31), (1900, 3, 1), (2024, 12, 31)):
        n = days_from_civil(y, mo, d)
        assert n == dtm.date(y, mo, d).toordinal() - dtm.date(1970, 1, 1).toordinal(), (y, mo, d, n)
        assert civil_from_days(n) == (y, mo, d)
    p = make(2015, 1, 1, 12, 0, 0, 0, 3 * 3600 * 10 ** 6)
    assert p[0] == 1420102800 * 10 ** 6, p
    assert fields(p)['hour'] == 12 and fields(utc(p))['hour'] == 9 and fields(p)['weekday'] == dtm.date(2015, 1, 1).weekday()
    assert timespan(days=1, seconds=-1) == 86399 * 10 ** 6
