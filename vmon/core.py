"""Driver, shard runner, recorder, verdicts, evidence, known findings.

A check = one driver process that asks the property module for a plan (a list
of JSON-able shard specs), runs every shard in its own subprocess (rlimits,
wall-clock watchdog, pinned hash seed), merges what the monitors recorded and
decides:

  exit 0  held on everything observed, deciding counters non-zero
  exit 1  VIOLATION property=<id> replay=<path>   (unlisted violation)
  exit 2  INCONCLUSIVE property=<id> reason=...    (monitor not reached, shard lost)
"""
import argparse
import concurrent.futures
import fnmatch
import hashlib
import importlib
import json
import os
import random
import resource
import shutil
import subprocess
import sys
import tempfile
import time
import traceback

HERE = os.path.dirname(os.path.dirname(os.path.abspath(__file__)))
REPO = os.environ.get('YAQL_REPO', '/repo')
EVIDENCE_DIR = os.environ.get('VERIF_EVIDENCE_DIR') or os.path.join(HERE, 'evidence')
REPLAY_DIR = os.environ.get('VERIF_REPLAY_DIR') or os.path.join(HERE, 'replays')
KNOWN_FILE = os.path.join(HERE, 'known_findings.json')
MAX_WORKERS = int(os.environ.get('VERIF_WORKERS', '16'))
MEM_LIMIT = int(os.environ.get('VERIF_SHARD_MEM', str(3 << 30)))


def stable_hash(obj):
    """64-bit stable hash of a JSON-able / repr-able case key."""
    if not isinstance(obj, (bytes, str)):
        obj = repr(obj)
    if isinstance(obj, str):
        obj = obj.encode('utf-8', 'surrogatepass')
    return int.from_bytes(hashlib.blake2b(obj, digest_size=8).digest(), 'big')


def rng_for(seed, *parts):
    return random.Random('%s:%s' % (seed, ':'.join(str(p) for p in parts)))


def jsonable(o, depth=0):
    """Best-effort conversion for replay/sample records."""
    if depth > 12:
        return '<deep>'
    if o is None or isinstance(o, (bool, int, str)):
        if isinstance(o, int) and not isinstance(o, bool) and abs(o) > 2 ** 62:
            return {'$int': str(o)}
        if isinstance(o, str):
            try:
                o.encode('utf-8')
            except UnicodeEncodeError:
                return {'$str': [ord(c) for c in o]}
        return o
    if isinstance(o, float):
        if o != o or o in (float('inf'), float('-inf')):
            return {'$float': repr(o)}
        return o
    if isinstance(o, (list, tuple)):
        return [jsonable(x, depth + 1) for x in o]
    if isinstance(o, dict):
        return {str(k): jsonable(v, depth + 1) for k, v in o.items()}
    if isinstance(o, (set, frozenset)):
        return {'$set': sorted((jsonable(x, depth + 1) for x in o), key=repr)}
    return {'$repr': repr(o)[:300]}


class Rec:
    """What a shard's monitors recorded."""
    MAX_SAMPLES = 4
    MAX_VIOL_PER_MECH = 5

    def __init__(self, prop, spec):
        self.prop = prop
        self.spec = spec
        self.evaluations = 0
        self.hashes = set()
        self.counters = {}
        self.samples = []
        self.violations = []
        self.viol_counts = {}
        self.inconclusive = []
        self.notes = {}

    def case(self, key=None, nontrivial=True, n=1):
        self.evaluations += n
        if nontrivial and key is not None:
            self.hashes.add(stable_hash(key))

    def count(self, name, n=1):
        self.counters[name] = self.counters.get(name, 0) + n

    def sample(self, obj, force=False):
        if force or len(self.samples) < self.MAX_SAMPLES:
            self.samples.append(jsonable(obj))

    def violation(self, mech, what, replay):
        """mech: mechanism classifier (stable string, no random values);
        what: human-readable observation vs expectation;
        replay: JSON-able dict from which the property module re-executes."""
        n = self.viol_counts.get(mech, 0)
        self.viol_counts[mech] = n + 1
        if n < self.MAX_VIOL_PER_MECH:
            self.violations.append({'mech': mech, 'what': str(what)[:2000],
                                    'replay': jsonable(replay)})

    def inconc(self, reason):
        if len(self.inconclusive) < 20:
            self.inconclusive.append(str(reason)[:500])

    def dump(self):
        return {
            'evaluations': self.evaluations,
            'hashes': sorted(self.hashes),
            'counters': self.counters,
            'samples': self.samples,
            'violations': self.violations,
            'viol_counts': self.viol_counts,
            'inconclusive': self.inconclusive,
            'notes': self.notes,
        }


def load_prop(prop):
    return importlib.import_module('vmon.props.' + prop.lower())


# --------------------------------------------------------------------------
# shard side

# ---- logical CPU budget for one monitored operation -------------------------------------------------------
# Code stuck inside a C extension (a backtracking regular expression) cannot be interrupted by a Python-level
# alarm.  cpu_budget() moves the shard's RLIMIT_CPU soft limit to "CPU time used so far + seconds" and leaves a
# witness in a memory-mapped file; when the kernel kills the shard with SIGXCPU the driver turns the witness into
# a violation.  CPU time, not wall-clock: a loaded machine does not trip it.
_PROGRESS = {'mm': None}
_PROGRESS_SIZE = 1 << 16


def progress_init(path):
    import mmap
    with open(path, 'wb') as f:
        f.write(b'\0' * _PROGRESS_SIZE)
    fd = os.open(path, os.O_RDWR)
    _PROGRESS['mm'] = mmap.mmap(fd, _PROGRESS_SIZE)
    os.close(fd)


def cpu_budget(seconds, witness):
    mm = _PROGRESS['mm']
    if mm is None:
        return
    data = json.dumps(jsonable(witness)).encode('utf-8')
    if len(data) > _PROGRESS_SIZE - 8:
        data = json.dumps({'truncated': True, 'head': data[:2000].decode('utf-8', 'replace')}).encode('utf-8')
    mm[0:8] = len(data).to_bytes(8, 'big')
    mm[8:8 + len(data)] = data
    used = time.process_time()
    hard = resource.getrlimit(resource.RLIMIT_CPU)[1]
    resource.setrlimit(resource.RLIMIT_CPU, (int(used) + int(seconds) + 1, hard))


def cpu_budget_off():
    if _PROGRESS['mm'] is not None:
        hard = resource.getrlimit(resource.RLIMIT_CPU)[1]
        resource.setrlimit(resource.RLIMIT_CPU, (hard, hard))


def _read_progress(path):
    try:
        with open(path, 'rb') as f:
            raw = f.read()
        n = int.from_bytes(raw[:8], 'big')
        if 0 < n <= len(raw) - 8:
            return json.loads(raw[8:8 + n].decode('utf-8'))
    except (OSError, ValueError):
        pass
    return None


def _set_limits():
    try:
        resource.setrlimit(resource.RLIMIT_AS, (MEM_LIMIT, MEM_LIMIT))
    except (ValueError, OSError):
        pass
    resource.setrlimit(resource.RLIMIT_CORE, (0, 0))


def shard_main(prop, spec_path, out_path):
    with open(spec_path) as f:
        spec = json.load(f)
    rec = Rec(prop, spec)
    t0 = time.time()
    try:
        import vmon.core as _vc           # property modules import vmon.core, this file runs as __main__
        _vc.progress_init(out_path + '.progress')
    except OSError:
        pass
    try:
        mod = load_prop(prop)
        mod.run_shard(spec, rec)
        _vc.cpu_budget_off()
    except MemoryError:
        rec.inconc('shard hit MemoryError (RLIMIT_AS) outside a monitored case')
    except BaseException as e:  # harness failure is inconclusive, not a verdict
        rec.inconc('harness exception in shard %s: %s' % (
            spec.get('name'), ''.join(traceback.format_exception_only(type(e), e)).strip()))
        rec.notes['traceback'] = traceback.format_exc()[-3000:]
    out = rec.dump()
    out['wall_s'] = time.time() - t0
    tmp = out_path + '.tmp'
    with open(tmp, 'w') as f:
        json.dump(out, f)
    os.replace(tmp, out_path)


# --------------------------------------------------------------------------
# driver side

def _run_one(prop, spec, workdir, idx, env):
    spec_path = os.path.join(workdir, 'spec%d.json' % idx)
    out_path = os.path.join(workdir, 'out%d.json' % idx)
    with open(spec_path, 'w') as f:
        json.dump(spec, f)
    # wall-clock watchdog only (its firing is 'inconclusive', never a verdict): generous, so that a slower or loaded
    # machine does not turn a long shard into a lost one
    timeout = spec.get('timeout', 1800) * (4 if spec.get('tier') == 'thorough' else 2)
    cmd = [sys.executable, '-m', 'vmon.core', '--shard', prop, spec_path, out_path]
    t0 = time.time()
    try:
        p = subprocess.run(cmd, env=env, cwd=HERE, timeout=timeout,
                           stdout=subprocess.PIPE, stderr=subprocess.STDOUT,
                           preexec_fn=_set_limits)
        rc = p.returncode
        output = p.stdout.decode('utf-8', 'replace')[-3000:]
    except subprocess.TimeoutExpired as e:
        rc = 'timeout'
        output = (e.stdout or b'').decode('utf-8', 'replace')[-3000:]
    res = None
    if os.path.exists(out_path):
        try:
            with open(out_path) as f:
                res = json.load(f)
        except ValueError:
            res = None
    if res is None and rc == -24:          # SIGXCPU: a monitored operation exceeded its CPU budget
        w = _read_progress(out_path + '.progress')
        if w is not None:
            mech = 'cpu-budget-exceeded:%s' % w.get('family', 'operation')
            res = {'evaluations': 1, 'hashes': [], 'counters': {'budget.cpu_kills': 1}, 'samples': [],
                   'violations': [{'mech': mech, 'what': '%s did not finish within its CPU budget of %s s (the shard was stopped by '
                                   'the kernel with SIGXCPU): %s' % (w.get('what', 'the operation'), w.get('seconds', '?'),
                                                                     json.dumps(w.get('replay'))[:300]),
                                   'replay': w.get('replay') or {}}],
                   'viol_counts': {mech: 1}, 'inconclusive': ['shard stopped at its CPU budget; the rest of its plan did not run'],
                   'notes': {}}
            rc = 0
    return idx, rc, res, output, time.time() - t0


def load_known():
    try:
        with open(KNOWN_FILE) as f:
            return json.load(f).get('findings', [])
    except FileNotFoundError:
        return []


def classify(prop, mech, known):
    for k in known:
        if k.get('property') != prop or k.get('status') != 'open':
            continue
        if fnmatch.fnmatchcase(mech, k['key']):
            return k
    return None


def write_evidence(prop, tier, seed, coverage, wall, violations, assumptions):
    os.makedirs(EVIDENCE_DIR, exist_ok=True)
    ev = {
        'property_id': prop,
        'tier': tier,
        'seed': seed,
        'level': 'exploration',
        'coverage': coverage,
        'assumptions': assumptions,
        'wall_s': round(wall, 2),
        'violations': violations,
    }
    path = os.path.join(EVIDENCE_DIR, prop + '.json')
    tmp = path + '.tmp'
    with open(tmp, 'w') as f:
        json.dump(ev, f, indent=1, sort_keys=True)
    os.replace(tmp, path)
    return path


def drive(prop, tier, seed):
    t0 = time.time()
    try:
        mod = load_prop(prop)
    except Exception as e:
        print('INCONCLUSIVE property=%s reason=cannot import property module or /repo: %r' % (prop, e))
        traceback.print_exc()
        return 2
    try:
        plan = mod.plan(tier, seed)
    except Exception as e:
        print('INCONCLUSIVE property=%s reason=planning failed (hook target missing or /repo does not import): %r' % (prop, e))
        traceback.print_exc()
        return 2
    for i, s in enumerate(plan):
        s.setdefault('name', 'shard%d' % i)
        s['tier'] = tier
        s['seed'] = seed
    env = dict(os.environ)
    env['PYTHONHASHSEED'] = env.get('PYTHONHASHSEED', '0')
    env['PYTHONPATH'] = REPO + os.pathsep + HERE
    env['PYTHONWARNINGS'] = 'ignore'
    env['PYTHONDONTWRITEBYTECODE'] = '1'
    workdir = tempfile.mkdtemp(prefix='vmon-%s-' % prop)
    merged = Rec(prop, None)
    merged_hashes = set()
    lost = []
    shard_walls = {}
    try:
        with concurrent.futures.ThreadPoolExecutor(MAX_WORKERS) as ex:
            futs = [ex.submit(_run_one, prop, s, workdir, i, dict(env, **s.get('env', {})))
                    for i, s in enumerate(plan)]
            for fut in concurrent.futures.as_completed(futs):
                idx, rc, res, output, wall = fut.result()
                name = plan[idx]['name']
                shard_walls[name] = round(wall, 1)
                if res is None:
                    lost.append('%s: rc=%s %s' % (name, rc, output[-400:].replace('\n', ' | ')))
                    continue
                if rc != 0:
                    lost.append('%s: rc=%s after writing results' % (name, rc))
                merged.evaluations += res['evaluations']
                merged_hashes.update(res['hashes'])
                for k, v in res['counters'].items():
                    merged.counters[k] = merged.counters.get(k, 0) + v
                for s in res['samples']:
                    if len(merged.samples) < 12:
                        merged.samples.append(s)
                merged.violations.extend(res['violations'])
                for k, v in res['viol_counts'].items():
                    merged.viol_counts[k] = merged.viol_counts.get(k, 0) + v
                for r in res['inconclusive']:
                    merged.inconclusive.append('%s: %s' % (name, r))
                for k, v in res.get('notes', {}).items():
                    merged.notes.setdefault(k, v)
    finally:
        shutil.rmtree(workdir, ignore_errors=True)

    known = load_known()
    unlisted = []
    listed = {}
    for v in merged.violations:
        k = classify(prop, v['mech'], known)
        if k is None:
            unlisted.append(v)
        else:
            listed.setdefault(k['key'], (k, []))[1].append(v)
    unlisted_mechs = [m for m in merged.viol_counts if classify(prop, m, known) is None]

    # deciding counters
    reasons = []
    required = getattr(mod, 'REQUIRED', {})
    req = required.get(tier, required) if isinstance(required.get(tier, None), dict) else required
    for name, minimum in req.items():
        if isinstance(minimum, dict):
            continue
        if name.endswith('*'):
            have = sum(1 for k, v in merged.counters.items() if k.startswith(name[:-1]) and v > 0)
            merged.counters['distinct(' + name + ')'] = have
        else:
            have = merged.counters.get(name, 0)
        if have < minimum:
            reasons.append('deciding counter %s=%d < %d' % (name, have, minimum))
    if merged.evaluations == 0:
        reasons.append('no case was executed')
    if len(merged_hashes) < 2:
        reasons.append('fewer than 2 distinct non-trivial cases')
    if lost:
        reasons.append('%d shard(s) lost: %s' % (len(lost), '; '.join(lost)[:1500]))
    if merged.inconclusive:
        reasons.append('%d inconclusive note(s): %s' % (
            len(merged.inconclusive), '; '.join(merged.inconclusive)[:1500]))

    coverage = {
        'evaluations': merged.evaluations,
        'distinct_nontrivial': len(merged_hashes),
        'rule': getattr(mod, 'RULE', ''),
        'samples': merged.samples or ['<none>'],
        'counters': dict(sorted(merged.counters.items())),
        'shards': len(plan),
        'shards_lost': lost,
        'shard_wall_s': shard_walls,
        'inconclusive_notes': merged.inconclusive[:20],
        'known_findings_hit': {k: len(v[1]) for k, v in listed.items()},
        'violation_mechanisms': merged.viol_counts,
        'unlisted_violations': [dict(mech=v['mech'], what=v['what']) for v in unlisted[:10]],
    }
    if getattr(mod, 'EXHAUSTIVE', None):
        coverage['exhaustive_parts'] = mod.EXHAUSTIVE
    coverage.update(merged.notes.get('coverage_extra', {}))
    wall = time.time() - t0
    write_evidence(prop, tier, seed, coverage, wall, sum(
        n for m, n in merged.viol_counts.items() if m in unlisted_mechs),
        getattr(mod, 'ASSUMPTIONS', []))

    print('property=%s tier=%s seed=%d evaluations=%d distinct_nontrivial=%d wall=%.1fs' % (
        prop, tier, seed, merged.evaluations, len(merged_hashes), wall))
    keys = [k for k in sorted(merged.counters) if not k.startswith(('pr.', 'fn.'))]
    print('counters: ' + ', '.join('%s=%d' % (k, merged.counters[k]) for k in keys[:60]))
    for key, (k, vs) in sorted(listed.items()):
        print('KNOWN-FINDING: property=%s %s [%s] (%d occurrence(s) this run, e.g. %s)' % (
            prop, k.get('what', ''), key, merged.viol_counts.get(vs[0]['mech'], len(vs)), vs[0]['what'][:200]))
    if unlisted:
        os.makedirs(REPLAY_DIR, exist_ok=True)
        seen = set()
        for v in unlisted:
            h = '%016x' % stable_hash(json.dumps(v, sort_keys=True))
            path = os.path.join(REPLAY_DIR, '%s-%s.json' % (prop, h))
            with open(path, 'w') as f:
                json.dump({'property': prop, 'tier': tier, 'seed': seed, 'violation': v}, f, indent=1)
            if v['mech'] not in seen:
                seen.add(v['mech'])
                print('  mechanism=%s count=%d: %s' % (v['mech'], merged.viol_counts.get(v['mech'], 1), v['what'][:600]))
                print('VIOLATION property=%s replay=%s' % (prop, path))
        return 1
    if reasons:
        for r in reasons:
            print('INCONCLUSIVE property=%s reason=%s' % (prop, r))
        return 2
    print('HELD property=%s on %d executions (%d distinct non-trivial)' % (
        prop, merged.evaluations, len(merged_hashes)))
    return 0


def replay(prop, path):
    with open(path) as f:
        doc = json.load(f)
    mod = load_prop(prop)
    v = doc['violation']
    rec = Rec(prop, {'replay': True, 'tier': doc.get('tier', 'quick'), 'seed': doc.get('seed', 0)})
    print('replaying %s mechanism=%s' % (path, v['mech']))
    print('recorded: ' + v['what'])
    mod.replay(v['replay'], rec)
    if rec.violations:
        for x in rec.violations:
            print('reproduced: mechanism=%s %s' % (x['mech'], x['what']))
        known = load_known()
        if all(classify(prop, x['mech'], known) for x in rec.violations):
            print('(all reproduced violations are listed known findings)')
            return 0
        print('VIOLATION property=%s replay=%s' % (prop, path))
        return 1
    print('not reproduced on the current tree')
    return 0


def selftest():
    """setup_cmd: /repo imports, hook targets exist, property modules import,
    reference models pass their own docstring-derived unit tests."""
    import glob
    import yaql
    assert os.path.realpath(yaql.__file__).startswith(os.path.realpath(REPO)), yaql.__file__
    bad = 0
    for path in sorted(glob.glob(os.path.join(HERE, 'vmon', 'props', 'c[0-9][0-9].py'))):
        name = os.path.basename(path)[:-3]
        try:
            mod = load_prop(name)
            st = getattr(mod, 'selftest', None)
            if st:
                st()
            print('selftest %s ok' % name.upper())
        except Exception:
            bad += 1
            print('selftest %s FAILED' % name.upper())
            traceback.print_exc()
    return 1 if bad else 0


def main(argv=None):
    ap = argparse.ArgumentParser()
    ap.add_argument('prop')
    ap.add_argument('--tier', default=os.environ.get('VERIF_TIER', 'quick'),
                    choices=['quick', 'thorough'])
    ap.add_argument('--replay')
    ap.add_argument('--shard', nargs=2, metavar=('SPEC', 'OUT'))
    ap.add_argument('--seed', type=int, default=None)
    if argv is None:
        argv = sys.argv[1:]
    if argv and argv[0] == '--shard':
        # internal: --shard PROP SPEC OUT
        shard_main(argv[1], argv[2], argv[3])
        return 0
    if argv and argv[0] == '--selftest':
        return selftest()
    args = ap.parse_args(argv)
    seed = args.seed
    if seed is None:
        try:
            seed = int(os.environ.get('VERIF_SEED', '0'))
        except ValueError:
            seed = stable_hash(os.environ['VERIF_SEED']) % (2 ** 31)
    prop = args.prop.upper()
    if args.replay:
        return replay(prop, args.replay)
    return drive(prop, args.tier, seed)


if __name__ == '__main__':
    try:
        rc = main()
        sys.stdout.flush()
    except BrokenPipeError:
        # the reader of our stdout went away (e.g. `| head`); the verdict is in the evidence file
        try:
            sys.stdout = open(os.devnull, 'w')
        except OSError:
            pass
        rc = 1
    sys.exit(rc)
