"""Observation primitives: sys.monitoring reach counters keyed on code objects,
class-level patches with undo, a tick probe, counting sources, canaries."""
import sys
import threading

TOOL = 4


class Reach:
    """Counts PY_START events of chosen code objects (cannot be bypassed by
    references bound earlier, because it is keyed on the code object)."""

    def __init__(self):
        self.names = {}
        self.counts = {}
        self.active = False
        self.on_start = {}

    def watch(self, func, name=None, callback=None):
        code = getattr(func, '__code__', None)
        if code is None:
            f = getattr(func, '__func__', None)
            code = getattr(f, '__code__', None)
        if code is None and hasattr(func, 'co_code'):
            code = func
        if code is None:
            raise TypeError('no code object for %r' % (func,))
        name = name or code.co_qualname
        self.names[code] = name
        self.counts.setdefault(name, 0)
        if callback:
            self.on_start[code] = callback
        if self.active:
            sys.monitoring.set_local_events(TOOL, code, sys.monitoring.events.PY_START)
        return self

    def start(self):
        mon = sys.monitoring
        if mon.get_tool(TOOL) is None:
            mon.use_tool_id(TOOL, 'vmon-reach')
        mon.register_callback(TOOL, mon.events.PY_START, self._cb)
        for code in self.names:
            mon.set_local_events(TOOL, code, mon.events.PY_START)
        self.active = True
        return self

    def _cb(self, code, offset):
        name = self.names.get(code)
        if name is None:
            return sys.monitoring.DISABLE
        self.counts[name] += 1
        cb = self.on_start.get(code)
        if cb is not None:
            cb(code)

    def stop(self):
        mon = sys.monitoring
        if self.active:
            for code in self.names:
                mon.set_local_events(TOOL, code, 0)
            mon.register_callback(TOOL, mon.events.PY_START, None)
            mon.free_tool_id(TOOL)
            self.active = False

    def flush(self, rec, prefix='reach.'):
        for k, v in self.counts.items():
            rec.count(prefix + k, v)
            self.counts[k] = 0


class Patches:
    """Class-level patches of real classes, undone on exit."""

    def __init__(self):
        self.undo = []

    def set(self, owner, attr, value):
        missing = object()
        old = owner.__dict__.get(attr, missing) if hasattr(owner, '__dict__') else getattr(owner, attr, missing)
        self.undo.append((owner, attr, old, missing))
        setattr(owner, attr, value)

    def restore(self):
        for owner, attr, old, missing in reversed(self.undo):
            if old is missing:
                try:
                    delattr(owner, attr)
                except AttributeError:
                    pass
            else:
                setattr(owner, attr, old)
        self.undo = []

    def __enter__(self):
        return self

    def __exit__(self, *a):
        self.restore()


class PullBudgetBreached(BaseException):
    """Raised by a CountingSource past its hard cap: a runaway consumer is
    stopped by a logical event, not by the clock.  BaseException so that no
    'except Exception' in the code under observation swallows it."""


def yaql_site(skip=1):
    """qualified name of the innermost frame that runs yaql code (the consumer)"""
    f = sys._getframe(skip)
    while f is not None:
        fn = f.f_code.co_filename.replace('\\', '/')
        if '/yaql/' in fn and '/vmon/' not in fn:
            return '%s.%s' % (fn.rsplit('/', 1)[-1][:-3], f.f_code.co_name)
        f = f.f_back
    return 'unknown'


def tb_site(exc):
    site = 'unknown'
    tb = exc.__traceback__
    while tb is not None:
        fn = tb.tb_frame.f_code.co_filename.replace('\\', '/')
        if '/yaql/' in fn and '/vmon/' not in fn:
            site = '%s.%s' % (fn.rsplit('/', 1)[-1][:-3], tb.tb_frame.f_code.co_name)
        tb = tb.tb_next
    return site


class CountingSource:
    """Iterator that numbers every element, counts pulls, optionally endless."""

    def __init__(self, items=None, hard_cap=100000, start=0, step=1, name='src', elem=None):
        self.items = items  # None => endless start, start+step, ...
        self.elem = elem    # endless sources: element number k is elem(k) instead of the number itself
        self.pulls = 0
        self.hard_cap = hard_cap
        self.start = start
        self.step = step
        self.name = name
        self.exhausted = False
        self.iters = 0
        self.trip = None        # pull number at which the consumer's code site is recorded
        self.trip_site = None

    def __iter__(self):
        self.iters += 1
        return self

    def __next__(self):
        if self.pulls >= self.hard_cap:
            raise PullBudgetBreached(self.name)
        self.pulls += 1
        if self.pulls == self.trip:
            self.trip_site = yaql_site(2)
        if self.items is None:
            k = self.start + (self.pulls - 1) * self.step
            return k if self.elem is None else self.elem(k)
        if self.pulls > len(self.items):
            self.exhausted = True
            raise StopIteration
        return self.items[self.pulls - 1]


class Ticker:
    """tick(id, value): appends id to the trace, returns value."""

    def __init__(self):
        self.trace = []
        self.lock = threading.Lock()

    def tick(self, id, value=None):
        self.trace.append(id)
        return value

    def register(self, context, name='tick'):
        def tick(id, value=None):
            self.trace.append(id)
            return value
        context.register_function(tick, name=name)
        return tick

    def reset(self):
        t = self.trace
        self.trace = []
        return t


class _RecRow(dict):
    """one row of ply's LR action table that records which (state, lookahead)
    entries the running parser consults (hits and misses)."""
    __slots__ = ('state', 'seen')

    def get(self, key, default=None):
        self.seen.add((self.state, key))
        return dict.get(self, key, default)


class LRCoverage:
    """Instruments ONE ply LRParser instance (the engine's own parser object):
    every consultation of its action table is recorded.  `hits` are entries of
    the table (shift/reduce/accept actions taken), `misses` are (state, token)
    pairs that are syntax errors.  States with a single default reduction are
    not consulted by ply (defaulted_states) and are excluded from the total."""

    def __init__(self, parser):
        self.parser = parser
        self.seen = set()
        self.orig = parser.action
        rows = {}
        for st, row in self.orig.items():
            r = _RecRow(row)
            r.state = st
            r.seen = self.seen
            rows[st] = r
        parser.action = rows
        defaulted = getattr(parser, 'defaulted_states', {})
        self.entries = {(st, tok) for st, row in self.orig.items() if st not in defaulted for tok in row}

    def hits(self):
        return self.seen & self.entries

    def misses(self):
        return self.seen - self.entries

    def restore(self):
        self.parser.action = self.orig


def module_codes(*modules):
    """every code object defined in the given modules (functions, methods, nested functions, lambdas)"""
    import types
    out = set()

    def walk(code):
        if code in out:
            return
        out.add(code)
        for c in code.co_consts:
            if isinstance(c, types.CodeType):
                walk(c)
    for m in modules:
        fn = getattr(m, '__file__', None)
        stack = list(vars(m).values())
        seen = set()
        while stack:
            v = stack.pop()
            if id(v) in seen:
                continue
            seen.add(id(v))
            f = getattr(v, '__func__', v)
            if isinstance(v, property):
                stack.extend(x for x in (v.fget, v.fset, v.fdel) if x is not None)
                continue
            code = getattr(f, '__code__', None)
            if isinstance(code, types.CodeType):
                if code.co_filename == fn:
                    walk(code)
                w = getattr(f, '__wrapped__', None)
                if w is not None:
                    stack.append(w)
            elif isinstance(v, type) and getattr(v, '__module__', None) == m.__name__:
                stack.extend(vars(v).values())
    return out


class LinePoints:
    """statement-start scheduling points (sys.monitoring LINE events) inside chosen code objects: every
    line executed there calls `baton.point('line')` while a baton is installed, so a scheduler can
    interleave threads between any two statements of that code - including statements that a change
    to the code under observation adds."""
    TOOL = 3

    def __init__(self, codes):
        self.codes = set(codes)
        self.baton = None
        self.count = 0
        self.active = False
        self.trace = None          # when a list: the (function, line) label of every point, in order

    def start(self):
        mon = sys.monitoring
        mon.use_tool_id(self.TOOL, 'vmon-linepoints')
        mon.register_callback(self.TOOL, mon.events.LINE, self._cb)
        for c in self.codes:
            mon.set_local_events(self.TOOL, c, mon.events.LINE)
        self.active = True
        return self

    def _cb(self, code, line):
        b = self.baton
        if b is not None:
            self.count += 1
            if self.trace is not None:
                self.trace.append((code.co_name, line))
            b.point('line')

    def stop(self):
        if self.active:
            mon = sys.monitoring
            for c in self.codes:
                mon.set_local_events(self.TOOL, c, 0)
            mon.register_callback(self.TOOL, mon.events.LINE, None)
            mon.free_tool_id(self.TOOL)
            self.active = False


class ReiterableSource(CountingSource):
    """the same counting source offered as a re-iterable host object: it has __iter__ only (no __next__, no
    __len__), every iterator it hands out draws from the one shared pull counter"""
    __next__ = None

    def __iter__(self):
        self.iters += 1
        outer = self

        class _It:
            def __iter__(self_):
                return self_

            def __next__(self_):
                return CountingSource.__next__(outer)
        return _It()
