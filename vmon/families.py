"""Generated overload families (C05, C06, C12): real python functions decorated
with the real yaql.language.specs decorators, over a small type lattice."""
from yaql.language import contexts as yctx
from yaql.language import specs as yspecs
from yaql.language import yaqltypes as yt


class A:
    def __repr__(self):
        return type(self).__name__ + '()'

    def __eq__(self, other):          # instances are interchangeable values of their class
        return type(self) is type(other)

    def __hash__(self):
        return hash(type(self).__name__)


class B(A):
    pass


class C(B):
    pass


class D:
    def __repr__(self):
        return 'D()'

    def __eq__(self, other):
        return type(self) is type(other)

    def __hash__(self):
        return hash('D')


import collections.abc as _abc
import numbers as _numbers

# plain classes, abstract base classes that concrete classes are only *registered* with (tuple is a Sequence,
# int and float are Numbers: subclass relations that do not show in __mro__), and "any of" aggregations
TYPES = {'object': object, 'A': A, 'B': B, 'C': C, 'D': D, 'int': int, 'str': str,
         'tuple': tuple, 'Seq': _abc.Sequence, 'Num': _numbers.Number, 'float': float,
         # yaqltypes.Iterable(): any iterable that is not a string or a mapping; converting a value for such a
         # parameter applies the engine's iterator limit (a sized collection over the limit is refused on the spot)
         'Iter': _abc.Iterable}
LONG = tuple(range(9))        # longer than the iterator limit (8) of the limited engine used by the limit families
# values and the lattice types they are instances of
VALUES = {
    'a': (A, lambda: A()), 'b': (B, lambda: B()), 'c': (C, lambda: C()), 'd': (D, lambda: D()),
    'i': (int, lambda: 7), 's': (str, lambda: 'txt'), 'n': (type(None), lambda: None),
    't': (tuple, lambda: (1, 2)), 'f': (float, lambda: 2.5), 'T': (tuple, lambda: LONG),
}


def is_anyof(tname):
    return tname.startswith('anyof:')


def anyof_parts(tname):
    return tname[len('anyof:'):].split(',')


def accepts(tname, value):
    """does a non-null python value pass the type named tname?"""
    if is_anyof(tname):
        return any(isinstance(value, TYPES[t]) for t in anyof_parts(tname))
    if tname == 'Iter' and isinstance(value, (str, dict)):
        return False
    return isinstance(value, TYPES[tname])


def instance_of(vkey, tname):
    if vkey == 'n':
        return False
    if is_anyof(tname):
        return any(issubclass(VALUES[vkey][0], TYPES[t]) for t in anyof_parts(tname))
    if tname == 'Iter' and issubclass(VALUES[vkey][0], str):
        return False
    return issubclass(VALUES[vkey][0], TYPES[tname])


def strictly_more_specific(t1, t2):
    """t1 is a proper subclass of t2 (the documented meaning of 'more specific'); aggregated types are
    not ordered against anything"""
    if is_anyof(t1) or is_anyof(t2):
        return False
    a, b = TYPES[t1], TYPES[t2]
    return issubclass(a, b) and not issubclass(b, a)


def smart_type(tname, nullable):
    if is_anyof(tname):
        return yt.AnyOf(*[TYPES[t] for t in anyof_parts(tname)], nullable=nullable)
    if tname == 'Iter':
        return yt.Iterable(nullable=nullable)
    return yt.PythonType(TYPES[tname], nullable)


class ParamSpec:
    def __init__(self, name, tname='object', nullable=True, default=None, has_default=False, lazy=False,
                 hidden=None, kind='pos'):
        self.name = name
        self.tname = tname
        self.nullable = nullable
        self.default = default
        self.has_default = has_default
        self.lazy = lazy
        self.hidden = hidden      # None | 'engine' | 'context'
        self.kind = kind          # pos | varargs | kwonly | kwargs

    def desc(self):
        d = {'name': self.name, 'type': self.tname, 'nullable': self.nullable, 'kind': self.kind}
        if self.has_default:
            d['default'] = self.default
        if self.lazy:
            d['lazy'] = True
        if self.hidden:
            d['hidden'] = self.hidden
        return d


class OverloadSpec:
    def __init__(self, tag, params, kind='function', no_kwargs=False, name='f'):
        self.tag = tag
        self.params = params
        self.kind = kind           # function | method | extension
        self.no_kwargs = no_kwargs
        self.name = name
        self.reg = 'decor'         # decor: name and call kind come from decorators | flags: from register_function's
        #                            name= / function= / method= arguments (the decorators say something else)
        self.twin = False          # a second registration of the callable built for the overload of the same tag

    def desc(self):
        d = {'tag': self.tag, 'kind': self.kind, 'no_kwargs': self.no_kwargs,
             'decor_seed': getattr(self, 'decor_seed', None), 'params': [p.desc() for p in self.params]}
        if self.reg != 'decor':
            d['reg'] = self.reg
        if self.twin:
            d['twin'] = True
        return d

    def register(self, ctx, fn, exclusive=False):
        kw = {'exclusive': True} if exclusive else {}
        if self.reg == 'flags':
            flags = {'function': {'function': True, 'method': False},       # decorated as a method
                     'method': {'function': False, 'method': True},         # not decorated
                     'extension': {'function': True}}[self.kind]            # decorated as a method
            ctx.register_function(fn, name=self.name, **flags, **kw)
        else:
            ctx.register_function(fn, **kw)

    def build(self):
        """returns a python function carrying the yaql decorations; calling it returns
        (tag, bound arguments)"""
        sig = []
        seen_kwonly = False
        for p in self.params:
            if p.kind == 'varargs':
                sig.append('*' + p.name)
                seen_kwonly = True
            elif p.kind == 'kwargs':
                sig.append('**' + p.name)
            elif p.kind == 'kwonly':
                if not seen_kwonly:
                    sig.append('*')
                    seen_kwonly = True
                sig.append(p.name + ('=%r' % (p.default,) if p.has_default else ''))
            else:
                sig.append(p.name + ('=%r' % (p.default,) if p.has_default else ''))
        names = [p.name for p in self.params]
        body = 'def payload(%s):\n    return (%r, {%s})\n' % (
            ', '.join(sig), self.tag, ', '.join('%r: _s(%s)' % (n, n) for n in names))
        # an over-long tuple is reported by a marker (the result itself has to pass the iterator limit)
        ns = {'_s': lambda v: 'LONG' if isinstance(v, tuple) and len(v) > 8 else v}
        exec(body, ns)
        fn = ns['payload']
        fn.__name__ = 'payload_' + self.tag
        fn.__module__ = 'vmon.generated'
        order = list(self.params)
        if getattr(self, 'decor_seed', None) is not None:
            import random
            random.Random(self.decor_seed).shuffle(order)      # parameter-dict order is decorator order
        for p in order:
            if p.hidden == 'engine':
                fn = yspecs.inject(p.name, yt.Engine())(fn)
            elif p.hidden == 'context':
                fn = yspecs.inject(p.name, yt.Context())(fn)
            elif p.lazy:
                fn = yspecs.parameter(p.name, yt.Lambda())(fn)
            else:
                fn = yspecs.parameter(p.name, smart_type(p.tname, p.nullable))(fn)
        if self.reg == 'flags':
            if self.kind in ('function', 'extension'):
                fn = yspecs.method(fn)
            if self.no_kwargs:
                fn = yspecs.no_kwargs(fn)
            return fn
        if self.kind == 'method':
            fn = yspecs.method(fn)
        elif self.kind == 'extension':
            fn = yspecs.extension_method(fn)
        if self.no_kwargs:
            fn = yspecs.no_kwargs(fn)
        fn = yspecs.name(self.name)(fn)
        return fn


class OrderedContext(yctx.Context):
    """a Context whose get_functions enumerates the real overload set in a chosen order"""

    def __init__(self, parent_context=None, data=yctx.utils.NO_VALUE, convention=None):
        super().__init__(parent_context, data, convention)
        self.order = None     # list of FunctionDefinitions (a permutation of the layer's set) or None

    def get_functions(self, name, predicate=None, use_convention=False):
        fds, excl = super().get_functions(name, predicate, use_convention)
        if self.order is None:
            return fds, excl
        ordered = [fd for fd in self.order if fd in fds]
        rest = [fd for fd in fds if fd not in ordered]
        return ordered + rest, excl
