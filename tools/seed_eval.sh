#!/bin/bash
# tools/seed_eval.sh <seed-dir containing patch.diff and demo.py> <check id ...>
# Confirms an independently written breaking change (tests still pass, demo fails with it and passes without)
# and runs the named checks against a scratch worktree carrying it.
set -u
SD=$(readlink -f "$1"); shift
D=$(mktemp -d /tmp/yaqlseed.XXXXXX)
git -C /repo worktree add -q --detach "$D/wt" HEAD
if ! git -C "$D/wt" apply "$SD/patch.diff"; then echo "PATCH DOES NOT APPLY"; git -C /repo worktree remove --force "$D/wt"; rm -rf "$D"; exit 3; fi
( cd "$D/wt" && PYTHONPATH="$D/wt" PYTHONWARNINGS=ignore /venv/bin/python -m pytest -q -p no:cacheprovider 2>&1 | tail -1 | sed 's/^/tests with change: /' )
( cd "$SD" && PYTHONPATH="$D/wt" PYTHONWARNINGS=ignore timeout 300 /venv/bin/python "$SD/demo.py" >/dev/null 2>&1; echo "demo with change: exit $?" )
( cd "$SD" && PYTHONPATH=/repo PYTHONWARNINGS=ignore timeout 300 /venv/bin/python "$SD/demo.py" >/dev/null 2>&1; echo "demo without change: exit $?" )
for C in "$@"; do
  TIER=${SEED_TIER:-quick}
  OUT=$(VERIF_EVIDENCE_DIR="$D/ev" VERIF_REPLAY_DIR="$D/rp" YAQL_REPO="$D/wt" /verif/check "$C" --tier "$TIER" 2>/dev/null)
  RC=$?
  echo "check $C ($TIER): exit $RC"
  echo "$OUT" | grep -E '^  mechanism|^INCONCLUSIVE' | cut -c1-260 | head -4
done
git -C /repo worktree remove --force "$D/wt"; rm -rf "$D"
