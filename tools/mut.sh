#!/bin/bash
# tools/mut.sh <prop> '<sed expr>' <file>   : run a check against a scratch copy of /repo with one edit
set -e
PROP=$1; EXPR=$2; FILE=$3; shift 3
D=$(mktemp -d /tmp/yaqlmut.XXXXXX)
git -C /repo worktree add -q --detach "$D/wt" HEAD
sed -i "$EXPR" "$D/wt/$FILE"
( cd "$D/wt" && git diff --stat | tail -1 )
VERIF_EVIDENCE_DIR="$D/ev" VERIF_REPLAY_DIR="$D/rp" YAQL_REPO="$D/wt" /verif/check "$PROP" "$@" | grep -E 'VIOLATION|HELD|INCONCLUSIVE|mechanism|KNOWN' | head -8 || true
git -C /repo worktree remove --force "$D/wt"; rm -rf "$D"
