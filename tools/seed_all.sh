#!/bin/bash
# re-confirms every stored seeded change and runs the checks named in its meta.json against it
cd "$(dirname "$0")/.."
for d in seeded/C*/; do
  id=$(basename "$d")
  checks=$(/venv/bin/python -c "import json;print(' '.join(json.load(open('$d/meta.json'))['checks_that_catch_it']))")
  echo "=== $id ($checks)"
  tools/seed_eval.sh "$d" $checks 2>&1 | grep -E "^(tests|demo|check)" 
done
