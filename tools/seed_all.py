#!/venv/bin/python
"""tools/seed_all.py [-j N] [--resume LOG]... [name-prefix ...]: re-confirms every stored seeded change (tests pass, demo fails
with / passes without) and runs the checks listed in its meta.json against it; writes seeded/RESULTS.md."""
import concurrent.futures
import json
import os
import re
import subprocess
import sys

HERE = os.path.dirname(os.path.dirname(os.path.abspath(__file__)))


def one(name):
    d = os.path.join(HERE, 'seeded', name)
    meta = json.load(open(os.path.join(d, 'meta.json')))
    checks = meta.get('checks_that_catch_it') or [meta['property']]
    not_judged = bool(meta.get('not_judged'))
    p = subprocess.run([os.path.join(HERE, 'tools', 'seed_eval.sh'), d] + checks, stdout=subprocess.PIPE,
                       stderr=subprocess.STDOUT, timeout=7200)
    out = p.stdout.decode('utf-8', 'replace')
    tests = re.search(r'tests with change: (.*)', out)
    dw = re.search(r'demo with change: exit (\d+)', out)
    dwo = re.search(r'demo without change: exit (\d+)', out)
    res = re.findall(r'check (C\d+) \(\w+\): exit (\d+)', out)
    mech = re.search(r'mechanism=(\S+)', out)
    return name, meta['property'], (tests.group(1) if tests else '?'), (dw.group(1) if dw else '?'), (
        dwo.group(1) if dwo else '?'), res, ('(not judged: outside the statement, see meta.json)' if not_judged else
                                             mech.group(1) if mech else '')


def main():
    args = sys.argv[1:]
    jobs = 3
    if args[:1] == ['-j']:
        jobs = int(args[1])
        args = args[2:]
    prior = []
    while args[:1] == ['--resume']:
        # rows printed by an earlier, interrupted run of this script (same checks, same tree) are taken over
        import ast
        for line in open(args[1]):
            if line.startswith('('):
                prior.append(ast.literal_eval(line.strip()))
        args = args[2:]
    names = sorted(n for n in os.listdir(os.path.join(HERE, 'seeded')) if os.path.isdir(os.path.join(HERE, 'seeded', n)))
    if args:
        names = [n for n in names if any(n.startswith(a) for a in args)]
    prior = list({r[0]: r for r in prior}.values())      # a later log overrides an earlier row of the same change
    done = {r[0] for r in prior}
    names = [n for n in names if n not in done]
    rows = list(prior)
    with concurrent.futures.ThreadPoolExecutor(jobs) as ex:
        for r in ex.map(one, names):
            rows.append(r)
            print(r, flush=True)
    rows.sort(key=lambda r: r[0])
    ok = 0
    lines = ['# Stored seeded changes against the current checks', '',
             'Produced by `tools/seed_all.py` (each change applied to a scratch worktree of `/repo` HEAD; quick tier).', '',
             '| seed | property | tests with the change | demo with / without | checks (exit code) | first mechanism reported |', '|---|---|---|---|---|---|']
    skipped = 0
    for name, prop, tests, dw, dwo, res, mech in rows:
        if mech.startswith('(not judged'):
            skipped += 1
            lines.append('| %s | %s | %s | %s / %s | %s | %s |' % (name, prop, tests.split(' in ')[0], dw, dwo,
                                                               ', '.join('%s: %s' % x for x in res), mech))
            continue
        caught = any(rc == '1' for c, rc in res)
        good = caught and 'passed' in tests and 'failed' not in tests and dw != '0' and dwo == '0'
        ok += good
        lines.append('| %s | %s | %s | %s / %s | %s | %s |' % (name, prop, tests.split(' in ')[0], dw, dwo,
                                                           ', '.join('%s: %s' % x for x in res), mech[:90]))
    lines += ['', '%d of %d stored changes are confirmed (tests pass, demo discriminates) and reported by at least one of their checks%s.' % (
        ok, len(rows) - skipped, '; %d more are stored but not judged (outside the statement of their property)' % skipped if skipped else '')]
    if not args:
        with open(os.path.join(HERE, 'seeded', 'RESULTS.md'), 'w') as f:
            f.write('\n'.join(lines) + '\n')
    print(lines[-1])
    return 0 if ok == len(rows) - skipped else 1


if __name__ == '__main__':
    sys.exit(main())
