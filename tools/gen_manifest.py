#!/venv/bin/python
"""Regenerates MANIFEST.json from the table below (keeps it schema-valid)."""
import json, os
HERE = os.path.dirname(os.path.dirname(os.path.abspath(__file__)))

CHECKS = {}
NOT_APPLICABLE = {}

def check(pid, technique, text, note, design):
    CHECKS[pid] = dict(technique=technique, text=text, note=note, design=design)

exec(open(os.path.join(HERE, 'tools', 'manifest_table.py')).read())

props = [json.loads(l)['id'] for l in open(os.path.join(HERE, 'properties.jsonl'))]
m = {
 'version': 1,
 'setup_cmd': '/venv/bin/python -m compileall -q vmon >/dev/null && ./check --selftest',
 'hooks': {
  'guard': 'YAQL_VERIF_HOOKS',
  'enable': 'no source hooks: every monitor is installed from the harness at run time (class-level patches, sys.monitoring code-object hooks, payload wrappers); the guard variable is unused by /repo',
  'baseline_off_cmd': 'cd /repo && /venv/bin/python -m pytest -ra -q -p no:cacheprovider --timeout=900 --continue-on-collection-errors',
  'source_commits': [],
  'add_only': True,
 },
 'engines': [{'name': 'vmon', 'path': 'vmon/', 'serves_properties': sorted(CHECKS),
              'kind_free_text': 'runtime monitors (hooks, reference models, trace/ history oracles, controlled scheduler) driving the real yaql code from /repo under /venv/bin/python'}],
 'checks': [],
 'notes': 'Exit codes: 0 held on what was observed, 1 VIOLATION (unlisted), 2 INCONCLUSIVE (a deciding monitor was not reached or a shard was lost). Known findings: known_findings.json.',
 'not_applicable': [],
}
for pid in props:
    if pid in CHECKS:
        c = CHECKS[pid]
        m['checks'].append({
          'property_id': pid,
          'quick_cmd': './check %s --tier quick' % pid,
          'thorough_cmd': './check %s --tier thorough' % pid,
          'evidence_file': 'evidence/%s.json' % pid,
          'replay_cmd_template': './check %s --replay {path}' % pid,
          'engine': 'vmon',
          'level_claimed': {'category': 'exploration', 'text': c['text'], 'design_ref': c['design']},
          'level_note': c['note'],
          'technique': c['technique'],
        })
    else:
        m['not_applicable'].append({'property_id': pid, 'reason': NOT_APPLICABLE.get(pid, 'check not built yet in this round (planned in DESIGN.md section 2); not claimed until its monitor exists and is silent on the unchanged tree')})
json.dump(m, open(os.path.join(HERE, 'MANIFEST.json'), 'w'), indent=1)
print('checks:', len(m['checks']), 'not_applicable:', len(m['not_applicable']))
