#!/bin/bash
# tools/mutpy.sh <prop> <python-snippet-file> [check args]: run a check against a scratch copy of /repo edited by a python snippet
# (the snippet runs with cwd = the scratch worktree)
set -e
PROP=$1; SNIP=$(readlink -f "$2"); shift 2
D=$(mktemp -d /tmp/yaqlmut.XXXXXX)
git -C /repo worktree add -q --detach "$D/wt" HEAD
( cd "$D/wt" && /venv/bin/python "$SNIP" && git diff --stat | tail -1 )
VERIF_EVIDENCE_DIR="$D/ev" VERIF_REPLAY_DIR="$D/rp" YAQL_REPO="$D/wt" /verif/check "$PROP" "$@" 2>/dev/null | grep -E 'VIOLATION|HELD|INCONCLUSIVE|mechanism|KNOWN' | head -6 || true
git -C /repo worktree remove --force "$D/wt"; rm -rf "$D"
