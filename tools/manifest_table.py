check('C03', 'runtime monitor: exception-class census + position-range assertion + logical token-fetch budget (hook on ply Lexer.token) over generated hostile inputs',
      'Held on every input executed: all token sequences up to length 2 (quick) / 3 (thorough) over a 128-token alphabet with and without separators, mutations, escape-shape matrix, long numerals/identifiers, 100000-deep nesting, random code points; three engine variants. Says nothing about inputs not generated.',
      'Trusts ply to be the only path from engine(text) to the lexer; termination judged by token-fetch count, not wall-clock.',
      'DESIGN.md 2/C03')
check('C01', 'runtime monitor: controlled (baton) scheduler with scheduling points at every ply Lexer.token entry, stateless DFS over all interleavings + random schedules + free-running 1us-switch stress; oracle = outcome on a fresh engine; history and aftermath monitors',
      'Held on every schedule executed: all interleavings (token-fetch granularity) of every ordered pair of a 12-text pool of valid/invalid texts on one shared engine (incl. engine.copy and per-call options access paths), random 2-3 thread schedules over long texts, histories with repeats, module-level yaql.eval cache, free-running threads. Between two token fetches threads are atomic in the controlled mode.',
      'Baseline is a freshly created engine per distinct text; interleavings finer than token fetches are only sampled by the free-running mode.',
      'DESIGN.md 2/C01')
check('C02', 'runtime monitor: reference-model oracle (independent precedence-climbing parser driven only by the operator table) compared with the tree built by the real parser, over exhaustive short and random long token sequences and tables built through insert_operator',
      'Held on every sequence executed: default table exhaustively for <=2 (quick) / <=3 (thorough) binary operators x <=2 prefix placements, random sequences with up to 12 operators incl. calls, lists, maps, index expressions, mapping rules, skipped slots and random whitespace; legacy table; custom homogeneous tables from 1-4 insert_operator calls.',
      'The model parser and the generator share the token vocabulary; tables whose groups are not homogeneous are excluded as the property states.',
      'DESIGN.md 2/C02')
check('C16', 'runtime monitor: round-trip oracle parse(spell(s,q)).value == s on the Constant node and the evaluated value, Python literal evaluation (ast.literal_eval) as reference for escape forms, int()/float() for numerals, keyword self-denotation and __-rejection assertions',
      'Held on every literal executed: each BMP code point alone and embedded in all three quote styles (exhaustive), astral samples, generated strings biased to quotes/backslashes/escape look-alikes, escape-form soups vs Python, integers up to 4000 digits, decimals, 5000 identifier-shaped words, 200 __words. One language limitation of the verbatim style is a listed known finding.',
      'spell() is the harness definition of the canonical spelling; escape forms that are not valid Python literals are out of scope (C03 covers them).',
      'DESIGN.md 2/C16')
check('C15', 'runtime monitor: reference-model oracle (scalar arithmetic/ordering model) on every operator x operand pair of a boundary corpus, plus law monitors over the observed outcomes (antisymmetry, <= as < or =, trichotomy, null lowest, floor-division identity, transitivity, integer ring laws)',
      'Held on every evaluation executed: all ordered pairs of a 48-value (quick) / 107-value (thorough) corpus under 14 binary operators in variable and literal form, all unary operators, repetition with bool/float/null counts, sampled triples for transitivity and ring laws. NaN/inf excluded.',
      'The model is Python arithmetic gated by the kinds the statement allows; and/or follow their docstrings.',
      'DESIGN.md 2/C15')
check('C17', 'runtime monitor: reference-model oracle (flattened-layers model of plain/multi/linked contexts) compared with the real context objects on the full read matrix after every step of random operation histories',
      'Held on every step executed: random forests of up to 9 contexts mixing Context, MultiContext and LinkedContext and 30-40 step histories of set/delete/child/register(exclusive)/delete_function; after each step every read (ctx[name], name in ctx, keys, get_functions, collect_functions, fd in ctx) on every context is compared.',
      'Deletions with partial effect and removal of exclusively registered names are not generated (unspecified by the statement).',
      'DESIGN.md 2/C17')
check('C10', 'runtime monitor: independent canonicaliser as oracle for the `$` round trip + recursive type census of every finalised result (invariant: plain data only) with finalisation-failure classifier; branch reach of convert_output_data observed through a sys.monitoring hook',
      'Held on every document/expression executed: generated nested host documents (dicts, lists, tuples, sets, generators) and generated expressions nesting every value kind the library returns (views, generators, ordering objects, frozen dicts/sets, as set elements and dict keys) under all 4 convertTuplesToLists x convertSetsToLists combinations, through Statement.evaluate and YaqlInterface. Unhashable-element finalisation failures are listed known findings.',
      'Evaluation success is established on an engine copy with output conversion off; host frozensets are not generated (characterised corner).',
      'DESIGN.md 2/C10')
