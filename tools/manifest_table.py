check('C03', 'runtime monitor: exception-class census + position-range assertion + logical token-fetch budget (hook on ply Lexer.token) over generated hostile inputs',
      'Held on every input executed: all token sequences up to length 2 (quick) / 3 (thorough) over a 128-token alphabet with and without separators, mutations, escape-shape matrix, long numerals/identifiers, 100000-deep nesting, random code points; three engine variants. Says nothing about inputs not generated.',
      'Trusts ply to be the only path from engine(text) to the lexer; termination judged by token-fetch count, not wall-clock.',
      'DESIGN.md 2/C03')
