#!/bin/bash
# tools/thorough_all.sh [check ids...] - runs the thorough tier of the given checks (default: all) one after another
# and prints one verdict line per check; exit 1 if any is not HELD.
cd "$(dirname "$0")/.."
IDS=${@:-C01 C02 C03 C04 C05 C06 C07 C08 C09 C10 C11 C12 C13 C14 C15 C16 C17 C18 C19 C20}
RC=0
for c in $IDS; do
  S=$(date +%s)
  OUT=$(./check $c --tier thorough 2>&1); R=$?
  echo "$c exit=$R wall=$(( $(date +%s) - S ))s $(echo "$OUT" | grep -E '^(HELD|VIOLATION|INCONCLUSIVE)' | head -3 | cut -c1-300 | tr '\n' ' ')"
  [ $R -ne 0 ] && { RC=1; echo "$OUT" | grep -E 'mechanism|INCONCLUSIVE' | head -8 | cut -c1-600; }
done
exit $RC
